"""C03 - every smoother is a consistent relaxation of the same system."""
import numpy as np
import scipy.linalg as sla
from hypothesis import strategies as st

from vp import gen, refop
from vp.framework import Violation

RULE = ("Grids with 2..6 cells per direction, or one long axis of 7..32 cells "
        "with 2..3 in the others (uniform/stretched/random "
        "widths), four anisotropy cases, optional mu_r and epsilon_r (eta with "
        "real and imaginary part), frequency or Laplace, "
        "induction-number regime drawn; field and source amplitudes 1e-30.."
        "1e30 independently, sources with or without entries on boundary "
        "edges; line-relaxation code 0..7 (int or numpy integer) and sweep "
        "count 1..6 mostly, also 0, 7, 8, 11 and 50/51 (grids <= 4 cells), "
        "through solver.smoothing (and the kernels' py_func on a "
        "sub-sample).  Oracles against the checker's assembled operator: "
        "(i) exact solution is a fixed point (residual form), (ii) after "
        "smoothing from a random start a block of the relaxed type has zero "
        "residual (nu=0: field bit-unchanged), (iii) affinity in (field, "
        "source) with real or complex weight, (iv) boundary edges "
        "never written, (v) two-cell directions are dropped from the line "
        "code, (vii) an end block of the documented lexicographic order "
        "has zero residual and nu=2 followed "
        "by nu=b equals nu=2+b; (viii) the result of one kernel equals a "
        "checker-side block Gauss-Seidel (LU per block from the assembled "
        "operator) of nu alternating sweeps over ALL blocks in lexicographic "
        "order, first sweep ascending or descending and, for lines, either "
        "nesting of the two remaining indices accepted, but the same "
        "orientation for the drawn kernel at nu and a second drawn kernel at "
        "nu 1..3; (ix) a combined line code is bit-identical to the calls "
        "for its single directions in x, y, z order; "
        "(vi) core.solve on random complex-symmetric 11-diagonal "
        "systems (pivots positive / within +-1.2 rad, or of any sign / "
        "phase) == dense solve.  Non-trivial = non-uniform widths, "
        "heterogeneous model, >=2 blocks; distinct by (shape, lr, nu, seeds).")
ASSUMPTIONS = [
    "reference operator vp/refop.py; rounding floor 1e-10 relative to "
    "|A||e|+|s| per row (measured <= 4e-16 on the pinned tree)",
    "(iii), (vii), (viii): the rounding scale includes the field *before* "
    "smoothing (a start field 1e15 times the solution leaves rounding of "
    "its own size behind; false alarm of the first thorough run)",
    "(viii) tolerance 1e-9 in the residual form |A d| <= tol (|A|(|e|+|e_ref|"
    "+|e_0|) + |s|) (measured <= 3e-14 for the matching convention); which sweep "
    "is 'forward' is not fixed by the docstrings (the code's first sweep "
    "descends), only that odd counts mean the same for every kernel; after "
    "many sweeps or with weakly coupled blocks several conventions match "
    "and the orientation part is vacuous (class orientation_decided_both "
    "counts the decided cases)",
    "(ix) and (ii) assume the order x, y, z of the dispatch in "
    "solver.smoothing and that each direction runs all its nu sweeps",
    "(vii) assumes every call starts with the same (odd = 'forward') sweep",
    "epsilon_r in the frequency domain only while omega^2 mu eps h_max^2 "
    "<= 0.05 (no local or global resonance; otherwise the case runs "
    "without epsilon_r, class epsr_dropped_wave_term); stretching factor "
    "<= 1.1 on the long axes",
    "nu=0 is taken to mean 'no sweep' (reachable through nu_coarse=0)",
]
SHARDS = {'quick': 1, 'thorough': 16}

LR_DIRS = {0: '', 1: 'x', 2: 'y', 3: 'z', 4: 'yz', 5: 'xz', 6: 'xy',
           7: 'xyz'}
LR_CODE = {v: k for k, v in LR_DIRS.items()}
# largest scaled difference to the best-matching convention seen by oracle
# (viii) (diagnostic for the rounding floor, never read by an oracle)
_STATS = {'ref_floor': 0.0}


def _long_grid_spec():
    """One long axis (line systems of up to 5*32-4 unknowns, many block rows
    in blocks_to_amat, odd and even counts), two short ones; the stretching
    factor is limited to 1.1 so that the width ratio along 32 cells stays
    within the range the rounding floors were measured for."""
    base = gen.grid_spec([[7, 8, 9, 12, 17, 32], [2, 3], [2, 3]])

    def rot(t):
        g, r = t
        n = list(g['n'])
        return dict(g, n=n[-r:] + n[:-r] if r else n,
                    fac=1.0 + 0.2*(g['fac'] - 1.0))
    return st.tuples(base, st.integers(0, 2)).map(rot)


def smooth_spec():
    return st.fixed_dictionaries({
        'grid': st.one_of(gen.grid_spec([2, 3, 4, 5, 6]),
                          gen.grid_spec([2, 3, 4, 5, 6]),
                          gen.grid_spec([2, 3, 4, 5, 6]),
                          _long_grid_spec()),
        'model': gen.model_spec(),
        'freq': gen.freq_spec(),
        'lr': st.integers(0, 7),
        # 1..6 mostly; 0 (no-op), odd/even counts beyond 6 and the many
        # sweeps of a coarsest-grid "direct solve" on a sub-sample (counts
        # >= 20 only on grids with <= 4 cells per direction, see _eff_nu)
        'nu': st.one_of(st.integers(1, 6), st.integers(1, 6),
                        st.integers(1, 6),
                        st.sampled_from([7, 8, 11, 50, 51, 0])),
        'alpha': st.floats(-1.5, 2.5),
        # imaginary part of the affine weight (used for complex fields only)
        'alpha_im': st.one_of(st.just(0.0), st.floats(-1.5, 1.5)),
        # decimal exponents of the amplitudes of fields / sources
        'lgamp_e': st.one_of(st.just(0.0), st.floats(-30, 30)),
        'lgamp_s': st.one_of(st.just(0.0), st.floats(-30, 30)),
        # sources with non-zero entries on tangential boundary edges
        'src_bnd': st.booleans(),
        # lr_dir passed as numpy integer (as multigrid does when cycling)
        'lr_np': st.booleans(),
        # kernel / sweep count of the cross reference run (oracle viii) and
        # which direction of a combined code is compared with the reference
        'xk': st.integers(0, 3),
        'xnu': st.integers(1, 3),
        'rk': st.integers(0, 2),
        'fseed': gen.SEED,
        # dense random fields, or fields with only a few non-zero interior
        # entries / a zero source (exact zeros in local right-hand sides)
        'fkind': st.sampled_from(['dense', 'dense', 'sparse', 'single',
                                  'zero_source']),
        'pyfunc': st.integers(0, 11).map(lambda k: k == 0),
    })


def _blocks(shape, dirs):
    """Candidate relaxation blocks (lists of flat edge indices)."""
    nx, ny, nz = shape
    ex, ey, ez = refop.edge_index(nx, ny, nz)
    out = []
    if not dirs:
        for i in range(1, nx):
            for j in range(1, ny):
                for k in range(1, nz):
                    out.append(('node', [ex[i-1, j, k], ex[i, j, k],
                                         ey[i, j-1, k], ey[i, j, k],
                                         ez[i, j, k-1], ez[i, j, k]]))
    if 'x' in dirs:
        for j in range(1, ny):
            for k in range(1, nz):
                b = list(ex[:, j, k])
                b += [ey[i, jj, k] for i in range(1, nx) for jj in (j-1, j)]
                b += [ez[i, j, kk] for i in range(1, nx) for kk in (k-1, k)]
                out.append(('x', b))
    if 'y' in dirs:
        for i in range(1, nx):
            for k in range(1, nz):
                b = list(ey[i, :, k])
                b += [ex[ii, j, k] for j in range(1, ny) for ii in (i-1, i)]
                b += [ez[i, j, kk] for j in range(1, ny) for kk in (k-1, k)]
                out.append(('y', b))
    if 'z' in dirs:
        for i in range(1, nx):
            for j in range(1, ny):
                b = list(ez[i, j, :])
                b += [ex[ii, j, k] for k in range(1, nz) for ii in (i-1, i)]
                b += [ey[i, jj, k] for k in range(1, nz) for jj in (j-1, j)]
                out.append(('z', b))
    return out


def _effective_dirs(lr, shape):
    return ''.join(d for d, n in zip('xyz', shape)
                   if d in LR_DIRS[lr] and n > 2)


def _sweep_orders(shape, kern):
    """Admissible block orders of one ascending sweep of kernel `kern`
    ('' = point-wise, else the line direction): list of lists of index
    arrays.  Point-wise: the documented lexicographic order of the nodes
    (x fastest, y, z slowest; core.gauss_seidel docstring).  Lines: the
    lexicographic order of the two remaining indices, in both nestings
    (no docstring fixes which of the two runs faster)."""
    nx, ny, nz = shape
    ex, ey, ez = refop.edge_index(nx, ny, nz)

    def block(a, b, c=None):
        if kern == '':
            i, j, k = a, b, c
            return [ex[i-1, j, k], ex[i, j, k], ey[i, j-1, k], ey[i, j, k],
                    ez[i, j, k-1], ez[i, j, k]]
        if kern == 'x':
            j, k = a, b
            return (list(ex[:, j, k]) +
                    [ey[i, jj, k] for i in range(1, nx) for jj in (j-1, j)] +
                    [ez[i, j, kk] for i in range(1, nx) for kk in (k-1, k)])
        if kern == 'y':
            i, k = a, b
            return (list(ey[i, :, k]) +
                    [ex[ii, j, k] for j in range(1, ny) for ii in (i-1, i)] +
                    [ez[i, j, kk] for j in range(1, ny) for kk in (k-1, k)])
        i, j = a, b
        return (list(ez[i, j, :]) +
                [ex[ii, j, k] for k in range(1, nz) for ii in (i-1, i)] +
                [ey[i, jj, k] for k in range(1, nz) for jj in (j-1, j)])

    if kern == '':
        return [[np.array(block(i, j, k)) for k in range(1, nz)
                 for j in range(1, ny) for i in range(1, nx)]]
    na, nb = {'x': (ny, nz), 'y': (nx, nz), 'z': (nx, ny)}[kern]
    lex = [np.array(block(a, b)) for b in range(1, nb) for a in range(1, na)]
    if na <= 2 or nb <= 2:
        return [lex]            # a single row of lines: one order only
    alt = [np.array(block(a, b)) for a in range(1, na) for b in range(1, nb)]
    return [lex, alt]


def _ref_gs(Ad, s, e0, order, nu, desc_first):
    """Checker-side block Gauss-Seidel: nu sweeps over `order`, alternating
    direction, the first one descending if desc_first."""
    e = e0.copy()
    # LU (backward stable; the node blocks are nearly singular at small
    # induction numbers, an explicit inverse would lose the residual)
    lus = [sla.lu_factor(Ad[np.ix_(b, b)]) for b in order]
    rows = [Ad[b] for b in order]
    nb = len(order)
    for sweep in range(nu):
        desc = bool(desc_first) ^ (sweep % 2 == 1)
        for m in (range(nb-1, -1, -1) if desc else range(nb)):
            b = order[m]
            # new block values from the OTHER unknowns only (no update form:
            # the old block values may be many decades larger than the new)
            e[b] = 0
            e[b] = sla.lu_solve(lus[m], s[b] - rows[m] @ e)
    return e


def _eff_nu(nu, shape):
    """Many sweeps only on small grids (cost); 50 -> 1, 51 -> 2 otherwise."""
    return nu if (nu < 20 or max(shape) <= 4) else nu % 10 + 1


def _smooth(emg3d, vm, sf, ef, nu, lr, pyfunc=False):
    from emg3d import core, solver
    if not pyfunc:
        solver.smoothing(vm, sf, ef, nu, lr)
        return
    inp = (sf.fx, sf.fy, sf.fz, vm.eta_x, vm.eta_y, vm.eta_z, vm.zeta,
           vm.grid.h[0], vm.grid.h[1], vm.grid.h[2], nu)
    dirs = _effective_dirs(lr, vm.grid.shape_cells)
    if dirs == '':
        core.gauss_seidel.py_func(ef.fx, ef.fy, ef.fz, *inp)
    if 'x' in dirs:
        core.gauss_seidel_x.py_func(ef.fx, ef.fy, ef.fz, *inp)
    if 'y' in dirs:
        core.gauss_seidel_y.py_func(ef.fx, ef.fy, ef.fz, *inp)
    if 'z' in dirs:
        core.gauss_seidel_z.py_func(ef.fx, ef.fy, ef.fz, *inp)


def case_smooth(spec, rec):
    import emg3d
    from scipy.constants import mu_0, epsilon_0
    h, origin = gen.build_widths(spec['grid'])
    grid = emg3d.TensorMesh(h, origin=origin)
    shape = tuple(int(n) for n in grid.shape_cells)
    fs = spec['freq']
    freq = gen.freq_of(fs)
    s = gen.sval_of(fs)
    bg = gen.bg_cond(fs, spec['grid']['scale'])
    mspec = spec['model']
    if mspec.get('epsr', False) and not fs['laplace']:
        # frequency domain with displacement currents: keep the wave term
        # omega^2 mu eps h^2 small against the curl-curl term, so that neither
        # the local blocks nor the grid come near a resonance (the pivot-free
        # factorisation is documented for the diffusive problem; the Laplace
        # domain is positive definite for every eps_r) - otherwise the case
        # is run without eps_r
        hmax = max(float(np.max(w)) for w in h)
        wave = abs(s)**2*mu_0*epsilon_0*80.0*5.0*hmax**2
        if wave > 0.05:
            mspec = dict(mspec, epsr=False)
            rec.cls('epsr_dropped_wave_term')
    model, (sx, sy, sz, mur, epsr) = gen.build_model(grid, mspec, bg)
    case = mspec['case']
    rsy = sy if case in ('HTI', 'triaxial') else sx
    rsz = sz if case in ('VTI', 'triaxial') else sx
    A, interior, *_ = refop.assemble(*h, sx, rsy, rsz, mur, epsr, s)
    absA = refop.absmat(A)
    sf = emg3d.Field(grid, frequency=freq)
    vm = emg3d.models.VolumeModel(model, sf)
    lr, nu = spec['lr'], _eff_nu(spec['nu'], shape)
    if spec.get('lr_np', False):
        lr = np.int64(lr)
    dirs = _effective_dirs(int(lr), shape)
    tag = f"lr{int(lr)}"
    pyf = bool(spec['pyfunc']) and max(shape) <= 4
    kinds = ['jit'] + (['py'] if pyf else [])
    ind_min = 10.0**(fs['lgind'] - mspec['decades']/2)

    fkind = spec.get('fkind', 'dense')
    iint = np.flatnonzero(interior)
    amp_e = 10.0**spec.get('lgamp_e', 0.0)
    amp_s = 10.0**spec.get('lgamp_s', 0.0)
    src_bnd = bool(spec.get('src_bnd', False))

    def field(salt, source=False):
        f = gen.random_field(grid, spec['fseed'], freq, salt=salt,
                             pec=not (source and src_bnd),
                             scale=amp_s if source else amp_e)
        if fkind == 'dense' or iint.size == 0:
            return f
        if fkind == 'zero_source' and not source:
            return f
        rng = gen.rng_of(spec['fseed'], 1000+salt)
        k = 0 if (fkind == 'zero_source') else (
            1 if fkind == 'single' else int(rng.integers(1, 7)))
        keep = rng.choice(iint, size=min(k, iint.size), replace=False)
        v = np.zeros_like(f.field)
        v[keep] = f.field[keep]
        if source and src_bnd:
            v[~interior] = f.field[~interior]
        f.field[:] = v
        return f

    def sabs(f):
        """|source| on the interior rows (boundary entries are not part of
        the system and must not enter a scale)."""
        return np.where(interior, np.abs(f.field), 0.0)

    for kind in kinds:
        k = kind == 'py'
        sig = f":{tag}:{kind}"
        # (i) fixed point -------------------------------------------------
        estar = field(31)
        src = emg3d.Field(grid, frequency=freq)
        src.field[:] = A @ estar.field
        src.field[~interior] = 0
        e = estar.copy()
        _smooth(emg3d, vm, src, e, nu, lr, k)
        res = src.field - A @ e.field
        scl = absA @ np.abs(e.field) + np.abs(src.field)
        bad = np.abs(res[interior]) > 1e-10*(scl[interior] + 1e-3*scl.max())
        if bad.any():
            raise Violation("fixed_point_residual"+sig,
                            "exact solution is not a fixed point: max scaled "
                            f"residual {np.max(np.abs(res[interior])/(scl[interior]+1e-300)):.2e}"
                            f", shape {shape}, nu {nu}")
        dev = np.max(np.abs(e.field-estar.field))/np.max(np.abs(estar.field))
        if dev > 1e-8/min(1.0, ind_min):
            raise Violation("fixed_point_field"+sig,
                            f"exact solution moved by {dev:.2e} relative "
                            f"(induction number {ind_min:.1e})")
        if np.any(e.field[~interior] != 0):
            raise Violation("boundary_written"+sig,
                            "tangential boundary values written")

        # (ii) last relaxed block is solved exactly ------------------------
        src2 = field(32, source=True)
        e2 = field(33)
        e2_start = e2.field.copy()
        _smooth(emg3d, vm, src2, e2, nu, lr, k)
        if np.any(e2.field[~interior] != 0):
            raise Violation("boundary_written"+sig,
                            "tangential boundary values written")
        if not np.all(np.isfinite(e2.field)):
            raise Violation("non_finite"+sig, "smoother produced NaN/inf")
        if nu == 0:
            # zero sweeps: nothing is relaxed, nothing may change
            if not np.array_equal(e2.field, e2_start):
                raise Violation("zero_sweeps_change_field"+sig,
                                f"nu=0 changed the field; shape {shape}")
            continue
        res = src2.field - A @ e2.field
        scl = absA @ np.abs(e2.field) + sabs(src2)
        den = scl + 1e-3*scl.max()
        rs = np.divide(np.abs(res), den, out=np.zeros_like(den),
                       where=den > 0)
        # the last sweep is over the last direction in x, y, z order
        blocks = _blocks(shape, dirs[-1:] if dirs else '')
        if blocks:
            vals = np.array([rs[b].max() for _, b in blocks])
            best = vals.min()
            if best > 1e-9:
                raise Violation("no_exactly_relaxed_block"+sig,
                                f"best block residual {best:.2e} (median "
                                f"{np.median(vals):.2e}); shape {shape}, "
                                f"nu {nu}, directions '{dirs}'")
            # documented: symmetric Gauss-Seidel in lexicographic order,
            # alternating direction -> the block relaxed last is one of the
            # two ends of that order (which end is a labelling matter)
            last = min(vals[0], vals[-1])
            if last > 1e-9:
                raise Violation(
                    "last_block_not_relaxed"+sig,
                    f"neither end block of the lexicographic order is "
                    f"exactly relaxed after {nu} sweeps: residuals "
                    f"{vals[0]:.2e} / {vals[-1]:.2e} (best block "
                    f"{best:.2e}); shape {shape}, directions '{dirs}'")

    # (iii) affinity ----------------------------------------------------------
    a = spec['alpha']
    if np.iscomplexobj(sf.field) and spec.get('alpha_im', 0.0) != 0.0:
        a = complex(a, spec['alpha_im'])
        rec.cls('alpha_complex')
    e1, e2 = field(41), field(42)
    s1, s2 = field(43, source=True), field(44, source=True)
    ec = emg3d.Field(grid, frequency=freq)
    sc = emg3d.Field(grid, frequency=freq)
    ec.field[:] = a*e1.field + (1-a)*e2.field
    sc.field[:] = a*s1.field + (1-a)*s2.field
    # rounding of every sweep is relative to the field at that sweep, which
    # starts at the initial field (possibly 1e15 times the final one)
    mag0 = (abs(a)*np.abs(e1.field) + abs(1-a)*np.abs(e2.field) +
            np.abs(ec.field))
    _smooth(emg3d, vm, s1, e1, nu, lr)
    _smooth(emg3d, vm, s2, e2, nu, lr)
    _smooth(emg3d, vm, sc, ec, nu, lr)
    rhs = a*e1.field + (1-a)*e2.field
    d = ec.field - rhs
    mag = (abs(a)*np.abs(e1.field) + abs(1-a)*np.abs(e2.field) +
           np.abs(ec.field)) + mag0
    scl = absA @ mag
    rd = np.abs(A @ d)
    if np.any(rd[interior] > 1e-9*(scl[interior] + 1e-3*scl.max())):
        raise Violation(f"not_affine_residual:{tag}",
                        "smoother is not affine in (field, source): "
                        f"max {np.max(rd[interior]/(scl[interior]+1e-300)):.2e}")
    if np.max(np.abs(d)) > 1e-7/min(1.0, ind_min)*np.max(mag):
        raise Violation(f"not_affine_field:{tag}",
                        f"affinity defect {np.max(np.abs(d))/np.max(mag):.2e}")

    # (vii) sweeps compose: nu = 2 followed by nu = b is nu = 2 + b -----------
    # (each call starts forward; single relaxation type only, because the
    # combined codes run all sweeps of one direction before the next)
    if len(dirs) <= 1:
        ea, eb = field(61), field(61)
        sab = field(62, source=True)
        mag0 = 2*np.abs(ea.field)
        _smooth(emg3d, vm, sab, ea, 2, lr)
        _smooth(emg3d, vm, sab, ea, nu, lr)
        _smooth(emg3d, vm, sab, eb, nu + 2, lr)
        d = ea.field - eb.field
        mag = np.abs(ea.field) + np.abs(eb.field) + mag0
        scl = absA @ mag + sabs(sab)
        rd = np.abs(A @ d)
        if np.any(rd[interior] > 1e-9*(scl[interior] + 1e-3*scl.max())):
            raise Violation(
                f"sweeps_do_not_compose:{tag}:nu{nu+2}",
                f"smoothing(nu=2) then smoothing(nu={nu}) differs from "
                f"smoothing(nu={nu+2}): max scaled residual of the "
                f"difference "
                f"{np.max(rd[interior]/(scl[interior]+1e-300)):.2e}; "
                f"shape {shape}")
        rec.cls('composition_checked')

    # (v) two-cell directions dropped -----------------------------------------
    if 2 in shape and int(lr) != LR_CODE[dirs]:
        ea, eb = field(51), field(51)
        sa = field(52)
        emg3d.solver.smoothing(vm, sa, ea, nu, lr)
        emg3d.solver.smoothing(vm, sa, eb, nu, LR_CODE[dirs])
        if not np.array_equal(ea.field, eb.field):
            raise Violation(f"two_cell_direction_not_dropped:{tag}",
                            f"lr_dir {lr} on shape {shape} differs from "
                            f"lr_dir {LR_CODE[dirs]}")
        rec.cls('two_cell_remap')

    # (ix) combined codes = the single directions one after the other ---------
    # (solver.smoothing: x, then y, then z, each with all nu sweeps; the same
    # compiled kernels on the same input -> bit-identical)
    if len(dirs) >= 2 and 'xk' in spec:
        ea, eb = field(81), field(81)
        sa = field(82, source=True)
        emg3d.solver.smoothing(vm, sa, ea, nu, lr)
        for d1 in dirs:
            emg3d.solver.smoothing(vm, sa, eb, nu, LR_CODE[d1])
        if not np.array_equal(ea.field, eb.field):
            dd = np.max(np.abs(ea.field-eb.field))/max(
                np.max(np.abs(ea.field)), 1e-300)
            raise Violation(
                f"combined_code_not_sequence:{tag}",
                f"lr_dir {int(lr)} on shape {shape} (directions '{dirs}') "
                f"differs from smoothing with "
                f"{[LR_CODE[d1] for d1 in dirs]} one after the other: "
                f"max rel. difference {dd:.2e}, nu {nu}")
        rec.cls('combined_sequence_checked')

    # (viii) the whole sweep: checker-side block Gauss-Seidel -----------------
    # conventions accepted: first sweep ascending or descending (the words
    # forward/backward do not fix it), for lines either nesting of the two
    # remaining indices; but the SAME orientation for every kernel and nu.
    nrows = A.shape[0]
    if 'xk' in spec and nrows <= 1500 and iint.size:
        Ad = A.toarray()

        def conventions(kern, e0, sfld, eout, nsw):
            """set of admissible first-sweep orientations (True = descending)
            reproducing eout, and the worst scaled difference seen."""
            ok, worst = set(), []
            sint = np.where(interior, sfld, 0)
            for desc in (True, False):
                w = []
                for order in _sweep_orders(shape, kern):
                    er = _ref_gs(Ad, sint, e0, order, nsw, desc)
                    dd = eout - er
                    mg = np.abs(eout) + np.abs(er) + np.abs(e0)
                    sc_ = absA @ mg + np.abs(sint)
                    r = np.abs(A @ dd)[interior]/(
                        sc_[interior] + 1e-3*sc_.max() + 1e-300)
                    w.append(float(r.max()))
                    if w[-1] <= 1e-9:
                        ok.add(desc)
                        break
                worst.append(min(w))
            _STATS['ref_floor'] = max(_STATS['ref_floor'], min(worst))
            return ok, min(worst)

        def run(kern, nsw, salt, what):
            e0 = field(salt)
            sfld = field(salt+1, source=True)
            start = e0.field.copy()
            emg3d.solver.smoothing(vm, sfld, e0, nsw, LR_CODE[kern])
            ok, worst = conventions(kern, start, sfld.field, e0.field, nsw)
            if not ok:
                raise Violation(
                    f"not_block_gauss_seidel:lr{LR_CODE[kern]}",
                    f"{what}: smoothing(nu={nsw}, lr_dir={LR_CODE[kern]}) on "
                    f"shape {shape} is not {nsw} alternating sweeps of block "
                    f"Gauss-Seidel over all blocks in lexicographic order "
                    f"(either orientation): best scaled residual of the "
                    f"difference {worst:.2e}")
            return ok

        mk = dirs if len(dirs) <= 1 else dirs[spec['rk'] % len(dirs)]
        ok_main = run(mk, nu, 71, 'main')
        cand = [''] + [d1 for d1, n in zip('xyz', shape) if n > 2]
        xk = cand[spec['xk'] % len(cand)]
        xnu = spec['xnu']
        ok_x = run(xk, xnu, 75, 'cross')
        if not (ok_main & ok_x):
            nm = {True: 'descending', False: 'ascending'}
            raise Violation(
                f"sweep_orientation_differs:lr{LR_CODE[mk]}:lr{LR_CODE[xk]}",
                f"first sweep of lr_dir={LR_CODE[mk]} (nu={nu}) is "
                f"{nm[next(iter(ok_main))]}, of lr_dir={LR_CODE[xk]} "
                f"(nu={xnu}) {nm[next(iter(ok_x))]}; odd sweep counts are "
                f"documented as forward for every kernel; shape {shape}")
        rec.cls('ref_gs_checked', f"ref_kernel='{mk}'", f"cross_kernel='{xk}'")
        if len(ok_main) == 1 and len(ok_x) == 1:
            rec.cls('orientation_decided_both')
        if len(ok_main) == 1:
            rec.cls('first_sweep=' + ('descending' if True in ok_main
                                      else 'ascending'))
        if mk != xk:
            rec.cls('cross_kernel_differs')

    kind = spec['grid']['kind']
    het = mspec['hetero'] != 'homog' and mspec['decades'] > .1
    nblocks = len(_blocks(shape, dirs[-1:] if dirs else ''))
    rec.cls(f"lr={int(lr)}", f"nu={nu}", f"case={case}", f"widths={kind}",
            f"fields={fkind}",
            f"laplace={fs['laplace']}", gen.regime(fs),
            f"mur={mur is not None}", f"eff_dirs='{dirs}'",
            f"epsr={epsr is not None}", f"src_bnd={src_bnd}",
            f"lr_np={isinstance(lr, np.integer)}")
    if epsr is not None and not fs['laplace']:
        rec.cls('eta_re_and_im')
    if nu == 0 or nu >= 7:
        rec.cls('nu=0' if nu == 0 else ('nu>=20' if nu >= 20 else 'nu=7..11'))
    for nm_, lg in (('e', spec.get('lgamp_e', 0.0)),
                    ('s', spec.get('lgamp_s', 0.0))):
        if lg != 0.0:
            rec.cls(f"amp_{nm_}=" + ('tiny' if lg < -10 else
                                     'huge' if lg > 10 else 'scaled'))
    if pyf:
        rec.cls('pyfunc')
    if max(shape) >= 7:
        rec.cls('long_axis', f"long_axis={max(shape)}",
                'long_axis_relaxed' if 'xyz'[int(np.argmax(shape))] in dirs
                else 'long_axis_not_relaxed')
    if kind != 'uniform' and het and nblocks >= 2:
        rec.nt([list(shape), int(lr), nu, spec['grid']['seed'],
                spec['model']['seed']])
    rec.note({'shape': list(shape), 'lr': int(lr), 'nu': nu, 'dirs': dirs,
              'blocks_last_sweep': nblocks})


# ---------------------------------------------------------------- (vi)
def solve_spec():
    return st.fixed_dictionaries({
        'n': st.one_of(st.integers(1, 80), st.sampled_from([6, 11, 16, 26])),
        'complex': st.booleans(),
        'seed': gen.SEED,
        'lgscale': st.floats(-6, 6),
        # pivots of either sign (real) / of any phase (complex); the
        # factorisation has no square root and no pivoting, L stays bounded
        'dsign': st.booleans(),
        'pyfunc': st.integers(0, 7).map(lambda k: k == 0),
    })


def case_solve(spec, rec):
    from emg3d import core
    n = spec['n']
    rng = gen.rng_of(spec['seed'], 61)
    cplx = spec['complex']

    def rnd(*shape):
        v = rng.uniform(-1, 1, size=shape)
        if cplx:
            v = v + 1j*rng.uniform(-1, 1, size=shape)
        return v
    # A = L D L^T, unit lower banded L (bandwidth 5), bounded pivots
    L = np.eye(n, dtype=complex if cplx else float)
    for i in range(n):
        for j in range(max(0, i-5), i):
            L[i, j] = 0.1*rnd()
    mag = rng.uniform(0.5, 2, size=n)
    ph = np.exp(1j*rng.uniform(-1.2, 1.2, size=n)) if cplx else np.where(
        rng.random(n) < 0.5, 1.0, 1.0)
    if spec.get('dsign', False):
        r2 = gen.rng_of(spec['seed'], 62)
        ph = (np.exp(1j*r2.uniform(-np.pi, np.pi, size=n)) if cplx else
              np.where(r2.random(n) < 0.5, 1.0, -1.0))
    D = mag*ph*10.0**spec['lgscale']
    Ad = (L*D[None, :]) @ L.T
    b = rnd(n)
    amat = np.zeros(6*n, dtype=Ad.dtype)
    for j in range(n):
        for i in range(j, min(n, j+6)):
            amat[i+5*j] = Ad[i, j]
    bvec = b.astype(Ad.dtype).copy()
    fn = core.solve.py_func if spec['pyfunc'] else core.solve
    fn(amat, bvec)
    ref = np.linalg.solve(Ad, b)
    err = np.max(np.abs(bvec-ref))/np.max(np.abs(ref))
    res = np.max(np.abs(Ad @ bvec - b)/(np.abs(Ad) @ np.abs(bvec) +
                                        np.abs(b)))
    if not np.all(np.isfinite(bvec)) or err > 1e-9 or res > 1e-11:
        raise Violation(f"banded_solve:{'complex' if cplx else 'real'}",
                        f"n={n}: rel error {err:.2e}, scaled residual "
                        f"{res:.2e}")
    rec.cls(f"complex={cplx}", f"pyfunc={spec['pyfunc']}",
            f"any_sign_or_phase={bool(spec.get('dsign', False))}",
            'n<=5' if n <= 5 else ('n=6' if n == 6 else 'n>6'))
    if n > 6:
        rec.nt(['solve', n, cplx, spec['seed']])
    rec.note({'n': n, 'complex': cplx, 'err': float(err)})


SUBS = {'smooth': case_smooth, 'solve': case_solve}


def run(ctx):
    ctx.regression(SUBS)
    ctx.explore('smooth', smooth_spec(), case_smooth, ctx.n(500, 2500))
    ctx.explore('solve', solve_spec(), case_solve, ctx.n(400, 3000))

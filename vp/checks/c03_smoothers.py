"""C03 - every smoother is a consistent relaxation of the same system."""
import numpy as np
from hypothesis import strategies as st

from vp import gen, refop
from vp.framework import Violation

RULE = ("Grids with 2..6 cells per direction (uniform/stretched/random "
        "widths), four anisotropy cases, optional mu_r, frequency or Laplace, "
        "induction-number regime drawn; line-relaxation code 0..7 and sweep "
        "count 1..6 through solver.smoothing (and the kernels' py_func on a "
        "sub-sample).  Oracles against the checker's assembled operator: "
        "(i) exact solution is a fixed point (residual form), (ii) after "
        "smoothing from a random start a block of the relaxed type has zero "
        "residual, (iii) affinity in (field, source), (iv) boundary edges "
        "never written, (v) two-cell directions are dropped from the line "
        "code, (vii) an end block of the documented lexicographic order "
        "has zero residual and nu=2 followed "
        "by nu=b equals nu=2+b; (vi) core.solve on random complex-symmetric 11-diagonal "
        "systems == dense solve.  Non-trivial = non-uniform widths, "
        "heterogeneous model, >=2 blocks; distinct by (shape, lr, nu, seeds).")
ASSUMPTIONS = [
    "reference operator vp/refop.py; rounding floor 1e-10 relative to "
    "|A||e|+|s| per row (measured <= 4e-16 on the pinned tree)",
]
SHARDS = {'quick': 1, 'thorough': 16}

LR_DIRS = {0: '', 1: 'x', 2: 'y', 3: 'z', 4: 'yz', 5: 'xz', 6: 'xy',
           7: 'xyz'}
LR_CODE = {v: k for k, v in LR_DIRS.items()}


def smooth_spec():
    return st.fixed_dictionaries({
        'grid': gen.grid_spec([2, 3, 4, 5, 6]),
        'model': gen.model_spec(epsr=False),
        'freq': gen.freq_spec(),
        'lr': st.integers(0, 7),
        'nu': st.integers(1, 6),
        'alpha': st.floats(-1.5, 2.5),
        'fseed': gen.SEED,
        # dense random fields, or fields with only a few non-zero interior
        # entries / a zero source (exact zeros in local right-hand sides)
        'fkind': st.sampled_from(['dense', 'dense', 'sparse', 'single',
                                  'zero_source']),
        'pyfunc': st.integers(0, 11).map(lambda k: k == 0),
    })


def _blocks(shape, dirs):
    """Candidate relaxation blocks (lists of flat edge indices)."""
    nx, ny, nz = shape
    ex, ey, ez = refop.edge_index(nx, ny, nz)
    out = []
    if not dirs:
        for i in range(1, nx):
            for j in range(1, ny):
                for k in range(1, nz):
                    out.append(('node', [ex[i-1, j, k], ex[i, j, k],
                                         ey[i, j-1, k], ey[i, j, k],
                                         ez[i, j, k-1], ez[i, j, k]]))
    if 'x' in dirs:
        for j in range(1, ny):
            for k in range(1, nz):
                b = list(ex[:, j, k])
                b += [ey[i, jj, k] for i in range(1, nx) for jj in (j-1, j)]
                b += [ez[i, j, kk] for i in range(1, nx) for kk in (k-1, k)]
                out.append(('x', b))
    if 'y' in dirs:
        for i in range(1, nx):
            for k in range(1, nz):
                b = list(ey[i, :, k])
                b += [ex[ii, j, k] for j in range(1, ny) for ii in (i-1, i)]
                b += [ez[i, j, kk] for j in range(1, ny) for kk in (k-1, k)]
                out.append(('y', b))
    if 'z' in dirs:
        for i in range(1, nx):
            for j in range(1, ny):
                b = list(ez[i, j, :])
                b += [ex[ii, j, k] for k in range(1, nz) for ii in (i-1, i)]
                b += [ey[i, jj, k] for k in range(1, nz) for jj in (j-1, j)]
                out.append(('z', b))
    return out


def _effective_dirs(lr, shape):
    return ''.join(d for d, n in zip('xyz', shape)
                   if d in LR_DIRS[lr] and n > 2)


def _smooth(emg3d, vm, sf, ef, nu, lr, pyfunc=False):
    from emg3d import core, solver
    if not pyfunc:
        solver.smoothing(vm, sf, ef, nu, lr)
        return
    inp = (sf.fx, sf.fy, sf.fz, vm.eta_x, vm.eta_y, vm.eta_z, vm.zeta,
           vm.grid.h[0], vm.grid.h[1], vm.grid.h[2], nu)
    dirs = _effective_dirs(lr, vm.grid.shape_cells)
    if dirs == '':
        core.gauss_seidel.py_func(ef.fx, ef.fy, ef.fz, *inp)
    if 'x' in dirs:
        core.gauss_seidel_x.py_func(ef.fx, ef.fy, ef.fz, *inp)
    if 'y' in dirs:
        core.gauss_seidel_y.py_func(ef.fx, ef.fy, ef.fz, *inp)
    if 'z' in dirs:
        core.gauss_seidel_z.py_func(ef.fx, ef.fy, ef.fz, *inp)


def case_smooth(spec, rec):
    import emg3d
    h, origin = gen.build_widths(spec['grid'])
    grid = emg3d.TensorMesh(h, origin=origin)
    shape = tuple(int(n) for n in grid.shape_cells)
    fs = spec['freq']
    freq = gen.freq_of(fs)
    s = gen.sval_of(fs)
    bg = gen.bg_cond(fs, spec['grid']['scale'])
    model, (sx, sy, sz, mur, epsr) = gen.build_model(grid, spec['model'], bg)
    case = spec['model']['case']
    rsy = sy if case in ('HTI', 'triaxial') else sx
    rsz = sz if case in ('VTI', 'triaxial') else sx
    A, interior, *_ = refop.assemble(*h, sx, rsy, rsz, mur, epsr, s)
    absA = refop.absmat(A)
    sf = emg3d.Field(grid, frequency=freq)
    vm = emg3d.models.VolumeModel(model, sf)
    lr, nu = spec['lr'], spec['nu']
    dirs = _effective_dirs(lr, shape)
    tag = f"lr{lr}"
    pyf = bool(spec['pyfunc']) and max(shape) <= 4
    kinds = ['jit'] + (['py'] if pyf else [])
    ind_min = 10.0**(fs['lgind'] - spec['model']['decades']/2)

    fkind = spec.get('fkind', 'dense')
    iint = np.flatnonzero(interior)

    def field(salt, source=False):
        f = gen.random_field(grid, spec['fseed'], freq, salt=salt)
        if fkind == 'dense' or iint.size == 0:
            return f
        if fkind == 'zero_source' and not source:
            return f
        rng = gen.rng_of(spec['fseed'], 1000+salt)
        k = 0 if (fkind == 'zero_source') else (
            1 if fkind == 'single' else int(rng.integers(1, 7)))
        keep = rng.choice(iint, size=min(k, iint.size), replace=False)
        v = np.zeros_like(f.field)
        v[keep] = f.field[keep]
        f.field[:] = v
        return f

    for kind in kinds:
        k = kind == 'py'
        sig = f":{tag}:{kind}"
        # (i) fixed point -------------------------------------------------
        estar = field(31)
        src = emg3d.Field(grid, frequency=freq)
        src.field[:] = A @ estar.field
        src.field[~interior] = 0
        e = estar.copy()
        _smooth(emg3d, vm, src, e, nu, lr, k)
        res = src.field - A @ e.field
        scl = absA @ np.abs(e.field) + np.abs(src.field)
        bad = np.abs(res[interior]) > 1e-10*(scl[interior] + 1e-3*scl.max())
        if bad.any():
            raise Violation("fixed_point_residual"+sig,
                            "exact solution is not a fixed point: max scaled "
                            f"residual {np.max(np.abs(res[interior])/(scl[interior]+1e-300)):.2e}"
                            f", shape {shape}, nu {nu}")
        dev = np.max(np.abs(e.field-estar.field))/np.max(np.abs(estar.field))
        if dev > 1e-8/min(1.0, ind_min):
            raise Violation("fixed_point_field"+sig,
                            f"exact solution moved by {dev:.2e} relative "
                            f"(induction number {ind_min:.1e})")
        if np.any(e.field[~interior] != 0):
            raise Violation("boundary_written"+sig,
                            "tangential boundary values written")

        # (ii) last relaxed block is solved exactly ------------------------
        src2 = field(32, source=True)
        e2 = field(33)
        _smooth(emg3d, vm, src2, e2, nu, lr, k)
        if np.any(e2.field[~interior] != 0):
            raise Violation("boundary_written"+sig,
                            "tangential boundary values written")
        if not np.all(np.isfinite(e2.field)):
            raise Violation("non_finite"+sig, "smoother produced NaN/inf")
        res = src2.field - A @ e2.field
        scl = absA @ np.abs(e2.field) + np.abs(src2.field)
        den = scl + 1e-3*scl.max()
        rs = np.divide(np.abs(res), den, out=np.zeros_like(den),
                       where=den > 0)
        # the last sweep is over the last direction in x, y, z order
        blocks = _blocks(shape, dirs[-1:] if dirs else '')
        if blocks:
            vals = np.array([rs[b].max() for _, b in blocks])
            best = vals.min()
            if best > 1e-9:
                raise Violation("no_exactly_relaxed_block"+sig,
                                f"best block residual {best:.2e} (median "
                                f"{np.median(vals):.2e}); shape {shape}, "
                                f"nu {nu}, directions '{dirs}'")
            # documented: symmetric Gauss-Seidel in lexicographic order,
            # alternating direction -> the block relaxed last is one of the
            # two ends of that order (which end is a labelling matter)
            last = min(vals[0], vals[-1])
            if last > 1e-9:
                raise Violation(
                    "last_block_not_relaxed"+sig,
                    f"neither end block of the lexicographic order is "
                    f"exactly relaxed after {nu} sweeps: residuals "
                    f"{vals[0]:.2e} / {vals[-1]:.2e} (best block "
                    f"{best:.2e}); shape {shape}, directions '{dirs}'")

    # (iii) affinity ----------------------------------------------------------
    a = spec['alpha']
    e1, e2 = field(41), field(42)
    s1, s2 = field(43, source=True), field(44, source=True)
    ec = emg3d.Field(grid, frequency=freq)
    sc = emg3d.Field(grid, frequency=freq)
    ec.field[:] = a*e1.field + (1-a)*e2.field
    sc.field[:] = a*s1.field + (1-a)*s2.field
    _smooth(emg3d, vm, s1, e1, nu, lr)
    _smooth(emg3d, vm, s2, e2, nu, lr)
    _smooth(emg3d, vm, sc, ec, nu, lr)
    rhs = a*e1.field + (1-a)*e2.field
    d = ec.field - rhs
    mag = (abs(a)*np.abs(e1.field) + abs(1-a)*np.abs(e2.field) +
           np.abs(ec.field))
    scl = absA @ mag
    rd = np.abs(A @ d)
    if np.any(rd[interior] > 1e-9*(scl[interior] + 1e-3*scl.max())):
        raise Violation(f"not_affine_residual:{tag}",
                        "smoother is not affine in (field, source): "
                        f"max {np.max(rd[interior]/(scl[interior]+1e-300)):.2e}")
    if np.max(np.abs(d)) > 1e-7/min(1.0, ind_min)*np.max(mag):
        raise Violation(f"not_affine_field:{tag}",
                        f"affinity defect {np.max(np.abs(d))/np.max(mag):.2e}")

    # (vii) sweeps compose: nu = 2 followed by nu = b is nu = 2 + b -----------
    # (each call starts forward; single relaxation type only, because the
    # combined codes run all sweeps of one direction before the next)
    if len(dirs) <= 1:
        ea, eb = field(61), field(61)
        sab = field(62, source=True)
        _smooth(emg3d, vm, sab, ea, 2, lr)
        _smooth(emg3d, vm, sab, ea, nu, lr)
        _smooth(emg3d, vm, sab, eb, nu + 2, lr)
        d = ea.field - eb.field
        mag = np.abs(ea.field) + np.abs(eb.field)
        scl = absA @ mag + np.abs(sab.field)
        rd = np.abs(A @ d)
        if np.any(rd[interior] > 1e-9*(scl[interior] + 1e-3*scl.max())):
            raise Violation(
                f"sweeps_do_not_compose:{tag}:nu{nu+2}",
                f"smoothing(nu=2) then smoothing(nu={nu}) differs from "
                f"smoothing(nu={nu+2}): max scaled residual of the "
                f"difference "
                f"{np.max(rd[interior]/(scl[interior]+1e-300)):.2e}; "
                f"shape {shape}")
        rec.cls('composition_checked')

    # (v) two-cell directions dropped -----------------------------------------
    if 2 in shape and lr != LR_CODE[dirs]:
        ea, eb = field(51), field(51)
        sa = field(52)
        emg3d.solver.smoothing(vm, sa, ea, nu, lr)
        emg3d.solver.smoothing(vm, sa, eb, nu, LR_CODE[dirs])
        if not np.array_equal(ea.field, eb.field):
            raise Violation(f"two_cell_direction_not_dropped:{tag}",
                            f"lr_dir {lr} on shape {shape} differs from "
                            f"lr_dir {LR_CODE[dirs]}")
        rec.cls('two_cell_remap')

    kind = spec['grid']['kind']
    het = spec['model']['hetero'] != 'homog' and spec['model']['decades'] > .1
    nblocks = len(_blocks(shape, dirs[-1:] if dirs else ''))
    rec.cls(f"lr={lr}", f"nu={nu}", f"case={case}", f"widths={kind}",
            f"fields={fkind}",
            f"laplace={fs['laplace']}", gen.regime(fs),
            f"mur={mur is not None}", f"eff_dirs='{dirs}'")
    if pyf:
        rec.cls('pyfunc')
    if kind != 'uniform' and het and nblocks >= 2:
        rec.nt([list(shape), lr, nu, spec['grid']['seed'],
                spec['model']['seed']])
    rec.note({'shape': list(shape), 'lr': lr, 'nu': nu, 'dirs': dirs,
              'blocks_last_sweep': nblocks})


# ---------------------------------------------------------------- (vi)
def solve_spec():
    return st.fixed_dictionaries({
        'n': st.one_of(st.integers(1, 80), st.sampled_from([6, 11, 16, 26])),
        'complex': st.booleans(),
        'seed': gen.SEED,
        'lgscale': st.floats(-6, 6),
        'pyfunc': st.integers(0, 7).map(lambda k: k == 0),
    })


def case_solve(spec, rec):
    from emg3d import core
    n = spec['n']
    rng = gen.rng_of(spec['seed'], 61)
    cplx = spec['complex']

    def rnd(*shape):
        v = rng.uniform(-1, 1, size=shape)
        if cplx:
            v = v + 1j*rng.uniform(-1, 1, size=shape)
        return v
    # A = L D L^T, unit lower banded L (bandwidth 5), bounded pivots
    L = np.eye(n, dtype=complex if cplx else float)
    for i in range(n):
        for j in range(max(0, i-5), i):
            L[i, j] = 0.1*rnd()
    mag = rng.uniform(0.5, 2, size=n)
    ph = np.exp(1j*rng.uniform(-1.2, 1.2, size=n)) if cplx else np.where(
        rng.random(n) < 0.5, 1.0, 1.0)
    D = mag*ph*10.0**spec['lgscale']
    Ad = (L*D[None, :]) @ L.T
    b = rnd(n)
    amat = np.zeros(6*n, dtype=Ad.dtype)
    for j in range(n):
        for i in range(j, min(n, j+6)):
            amat[i+5*j] = Ad[i, j]
    bvec = b.astype(Ad.dtype).copy()
    fn = core.solve.py_func if spec['pyfunc'] else core.solve
    fn(amat, bvec)
    ref = np.linalg.solve(Ad, b)
    err = np.max(np.abs(bvec-ref))/np.max(np.abs(ref))
    res = np.max(np.abs(Ad @ bvec - b)/(np.abs(Ad) @ np.abs(bvec) +
                                        np.abs(b)))
    if not np.all(np.isfinite(bvec)) or err > 1e-9 or res > 1e-11:
        raise Violation(f"banded_solve:{'complex' if cplx else 'real'}",
                        f"n={n}: rel error {err:.2e}, scaled residual "
                        f"{res:.2e}")
    rec.cls(f"complex={cplx}", f"pyfunc={spec['pyfunc']}",
            'n<=5' if n <= 5 else ('n=6' if n == 6 else 'n>6'))
    if n > 6:
        rec.nt(['solve', n, cplx, spec['seed']])
    rec.note({'n': n, 'complex': cplx, 'err': float(err)})


SUBS = {'smooth': case_smooth, 'solve': case_solve}


def run(ctx):
    ctx.regression(SUBS)
    ctx.explore('smooth', smooth_spec(), case_smooth, ctx.n(500, 2500))
    ctx.explore('solve', solve_spec(), case_solve, ctx.n(400, 3000))

"""C06 - grid-size independent multigrid convergence on the showcase."""
import itertools

import numpy as np
from hypothesis import strategies as st

from vp import refop
from vp.framework import HarnessError, Violation

RULE = ("A family = (cycle F/V/W, isotropic, triaxial 1:2:3 in any of the "
        "six axis orders, HTI or VTI "
        "(factor 2 either way) medium, "
        "frequency or Laplace domain, nu_pre, nu_post in 0..3 with sum >= 2) "
        "plus a "
        "Hypothesis-drawn electric point source (position in the central "
        "40 % of the domain, any azimuth/elevation), frequency "
        "(0.3..3 Hz), grid origin (0 / negative / UTM-like), spelling "
        "(plain=True or three explicit False) and, for isotropic media, cell "
        "aspect dx:dy:dz (1:1:1 or ratios <= 1.56); the same draw is solved "
        "with stand-alone multigrid "
        "(tol 1e-8, a share 1e-11) on uniform grids of 8, 16, 32 (a share "
        "also 64 and a non-cubic "
        "2^a x 3*2^b x 5*2^c shape in a drawn axis order with cubic cells; "
        "thorough: 128 and more "
        "non-cubic shapes) cells per direction over the same domain.  Oracle "
        "(metamorphic in grid size): all sizes converge; average reduction "
        "factor rho(n) <= 1.5*rho(16)+0.02 for n >= 16 and <= an absolute "
        "cap per (medium class, nu_pre+nu_post) = 1.5 x the largest factor "
        "measured on the pinned tree; the worst per-cycle factor after the "
        "first cycle likewise (own caps, <= 1.6*worst(16)+0.03); "
        "cycles(n) <= cycles(16)+3.  rho is computed from an independently "
        "evaluated final residual (emg3d.solver.residual on a fresh "
        "VolumeModel; cross-checked with vp.refop up to 16^3 cells), "
        "which must be below tol*||s|| and "
        "equal info['abs_error']; ref_error, rel_error, error_at_cycle and "
        "it_mg must be consistent with it.  At 16^3 the solve is repeated "
        "on the same model/source objects with maxit=j (drawn): residual of "
        "the returned field == error_at_cycle[j] of the full solve, and the "
        "sequence of emg3d.solver.smoothing calls (grid shape, nu) == the "
        "textbook V/F/W schedule of the docstring diagram (exact); "
        "continuing from that field (efield=) reproduces the remaining "
        "history.  Sub-check visits: the same exact schedule oracle over "
        "cycle x shape (cubic, non-cubic) x nu_init/nu_pre/nu_coarse/"
        "nu_post x maxit 1..3.  "
        "Non-trivial = every family (all sizes converged); distinct by the "
        "whole draw.")
ASSUMPTIONS = [
    "absolute caps: tables MEASURED / MEASURED_W below = max average / "
    "worst-per-cycle factor measured on the pinned tree at 16^3, 32^3, "
    "64^3 and the two quick non-cubic shapes (64 + 16 draws per table entry, "
    "see comment at the tables); cap = 1.5 x measured; the caps are also "
    "applied to 128^3 and to the other non-cubic shapes of the thorough tier",
    "h-independence threshold 1.5*rho(16)+0.02 (measured rho(32)/rho(16) "
    "in [0.85, 1.28]); worst per-cycle factor 1.6*worst(16)+0.03",
    "schedule oracle observes emg3d.solver.smoothing (harness error, not a "
    "violation, if that function is never called during a solve)",
    "restart oracle: a multigrid cycle is a stationary iteration, so a solve "
    "continued from its own j-th iterate has the same remaining history "
    "(compared to 1e-9 relative)",
]
SHARDS = {'quick': 1, 'thorough': 16}

# measured max average reduction factor (over cycles, domains, sources,
# sizes 16^3, 32^3, 64^3 and the two quick non-cubic shapes in all axis
# orders): max of the round-1 table (216 + 168 draws, nu in 1..3) and of a
# stratified campaign of 64 draws per (class, nu_pre+nu_post) entry with the
# present generator (nu 0..3, origins, aspects, tol 1e-8/1e-11), plus 16
# draws per entry at 64^3.  class 0 = isotropic, cubic cells; class 1 =
# anisotropic medium or non-cubic cells.
MEASURED = {
    0: {2: 0.269, 3: 0.169, 4: 0.117, 5: 0.092, 6: 0.072},
    1: {2: 0.430, 3: 0.282, 4: 0.186, 5: 0.128, 6: 0.096},
}
# measured max of the worst per-cycle factor err[i+1]/err[i], i >= 1 (same
# campaign)
MEASURED_W = {
    0: {2: 0.302, 3: 0.201, 4: 0.153, 5: 0.120, 6: 0.096},
    1: {2: 0.476, 3: 0.333, 4: 0.228, 5: 0.168, 6: 0.129},
}
CAPS = {a: {k: 1.5*v for k, v in d.items()} for a, d in MEASURED.items()}
CAPS_W = {a: {k: 1.5*v for k, v in d.items()} for a, d in MEASURED_W.items()}
NONCUBIC = [(32, 24, 20), (16, 48, 40), (40, 16, 24), (64, 24, 40),
            (48, 40, 32), (20, 12, 16)]
# shapes of the schedule sub-check (cheap ones; 3 and 5 as coarsest sizes)
VSHAPES = [(8, 8, 8), (16, 16, 16), (32, 32, 32), (20, 12, 16), (12, 20, 8),
           (8, 12, 20), (4, 4, 4), (24, 16, 40), (32, 24, 20)]
PERMS = list(itertools.permutations(range(3)))      # identity first
ORIGINS = [(0.0, 0.0, 0.0), (-500.0, -500.0, -1000.0),
           (5e5, 6.2e6, -3000.0)]
# uniform cells with dx:dy:dz != 1 (isotropic media only): largest ratio
# 1.5625, i.e. an effective anisotropy of the smoother < 2.5
ASPECTS = [(1.0, 1.0, 1.0), (1.0, 1.25, 0.8), (0.8, 1.0, 1.25),
           (1.4, 1.0, 1.0)]
DEEP_TOL = 1e-11
C_EPS = 1e4*np.finfo(float).eps


MEDIA = {
    'tri': dict(property_x=1.0, property_y=2.0, property_z=3.0),
    'HTI': dict(property_x=1.0, property_y=2.0),
    'HTIi': dict(property_x=2.0, property_y=1.0),
    'VTI': dict(property_x=1.0, property_z=2.0),
    'VTIi': dict(property_x=2.0, property_z=1.0),
}


def spec_strategy(big, huge=False, medium=None):
    fixed = {}
    if medium is not None:
        fixed = {'aniso': st.just(medium != 'iso'),
                 'acase': st.just('tri' if medium == 'iso' else medium)}
    return st.fixed_dictionaries({
        'cycle': st.sampled_from(['F', 'V', 'W']),
        'aniso': st.booleans(),
        # which mild anisotropy (used if aniso): triaxial 1:2:3, or a factor
        # two between the horizontal directions (HTI) / horizontal and
        # vertical (VTI), either way round
        'acase': st.sampled_from(list(MEDIA)),
        'laplace': st.booleans(),
        'nu': st.tuples(st.integers(0, 3), st.integers(0, 3)).filter(
            lambda t: t[0]+t[1] >= 2).map(list),
        'src': st.tuples(st.floats(0.3, 0.7), st.floats(0.3, 0.7),
                         st.floats(0.3, 0.7), st.floats(-180, 180),
                         st.floats(-90, 90)).map(list),
        'f': st.floats(-0.5, 0.5).map(lambda u: float(10**u)),
        'big': st.just(big),
        'huge': st.just(huge),
        # non-cubic 2^a x 3*2^b x 5*2^c shapes (cubic cells): all of them in
        # the thorough tier, the two cheapest ones also in the quick tier
        'noncubic': st.sampled_from([None] + list(range(len(NONCUBIC))))
        if huge or big == 'nc' else st.sampled_from([None, 0, 5, 0, 5]),
        # axis order of the non-cubic shape / of the triaxial 1:2:3 medium
        'perm': st.integers(0, 5),
        'tperm': st.integers(0, 5),
        'origin': st.sampled_from([0, 1, 2]),
        # cell aspect (index into ASPECTS; applied to isotropic media only)
        'aspect': st.sampled_from([0, 0, 1, 2, 3]),
        'plain': st.booleans(),
        # tol 1e-11 instead of 1e-8 (families up to 32^3 only)
        'deep': st.booleans(),
        # prefix / restart / schedule sub-oracle at 16^3 after j cycles
        'jcut': st.integers(1, 4),
        **fixed,
    })


# ------------------------------------------------------------------ helpers
def _medium_name(spec):
    return spec.get('acase', 'tri') if spec['aniso'] else 'iso'


def _aspect(spec):
    return ASPECTS[0] if spec['aniso'] else ASPECTS[spec.get('aspect', 0)]


def _tol(spec):
    deep = (spec.get('deep', False) and spec['big'] is False
            and not spec['huge'])
    return DEEP_TOL if deep else 1e-8


def _props(spec):
    """Resistivities (x, y, z) of the homogeneous medium."""
    rs = float(spec.get('rs', 1.0))
    if not spec['aniso']:
        return rs, rs, rs
    name = spec.get('acase', 'tri')
    if name == 'tri':
        p = PERMS[spec.get('tperm', 0)]
        v = (1.0, 2.0, 3.0)
        return rs*v[p[0]], rs*v[p[1]], rs*v[p[2]]
    kw = MEDIA[name]
    rx = kw['property_x']
    return (rs*rx, rs*kw.get('property_y', rx), rs*kw.get('property_z', rx))


def _setup(emg3d, spec, shape, h):
    asp = _aspect(spec)
    hh = [np.ones(n)*h*a for n, a in zip(shape, asp)]
    L = [n*h*a for n, a in zip(shape, asp)]
    org = ORIGINS[spec.get('origin', 0)]
    grid = emg3d.TensorMesh(hh, origin=org)
    rx, ry, rz = _props(spec)
    name = spec.get('acase', 'tri')
    if not spec['aniso']:
        model = emg3d.Model(grid, rx)
    elif name == 'tri':
        model = emg3d.Model(grid, property_x=rx, property_y=ry,
                            property_z=rz)
    elif name.startswith('HTI'):
        model = emg3d.Model(grid, property_x=rx, property_y=ry)
    else:
        model = emg3d.Model(grid, property_x=rx, property_z=rz)
    s = spec['src']
    coo = (org[0]+s[0]*L[0], org[1]+s[1]*L[1], org[2]+s[2]*L[2], s[3], s[4])
    f = -spec['f'] if spec['laplace'] else spec['f']
    sf = emg3d.get_source_field(grid, coo, frequency=f)
    return {'grid': grid, 'model': model, 'sf': sf, 'h': hh, 'shape': shape,
            'sval': spec['f'] if spec['laplace'] else 2j*np.pi*spec['f'],
            'res': _props(spec), 'A': None}


def _true_residual(emg3d, S, efield):
    """||s - A e|| of a field, without the solver's book-keeping.

    Returns (rn, rref, floor): rn from emg3d.solver.residual on a freshly
    built VolumeModel (the same arithmetic as the solver: comparable to 1e-9
    relative); up to 16^3 cells also rref from the checker's assembled
    operator with the rounding floor of DESIGN.md 2.6 (else None, 0)."""
    sf = S['sf']
    vm = emg3d.models.VolumeModel(S['model'], sf)
    rn = float(emg3d.solver.residual(vm, sf, efield, True))
    if int(np.prod(S['shape'])) > 16**3:
        return rn, None, 0.0
    if S['A'] is None:
        rx, ry, rz = S['res']
        A, interior, *_ = refop.assemble(*S['h'], 1/rx, 1/ry, 1/rz,
                                         None, None, S['sval'])
        S['A'] = (A, interior, refop.absmat(A))
    A, interior, absA = S['A']
    e = np.asarray(efield.field)
    s0 = np.asarray(sf.field)
    r = s0 - A @ e
    r[~interior] = 0
    floor = C_EPS*float(np.linalg.norm(
        (absA @ np.abs(e) + np.abs(s0))[interior]))
    return rn, float(np.linalg.norm(r)), floor


def _close(a, b, floor=0.0):
    return bool(np.isfinite(a) and np.isfinite(b) and
                abs(a-b) <= 1e-9*abs(b) + 10*floor)


def _levels(shape):
    """Grid shapes of full coarsening: halve every direction that is even
    and has more than two cells, until nothing changes."""
    out = [tuple(int(n) for n in shape)]
    while True:
        s = out[-1]
        t = tuple(n//2 if (n % 2 == 0 and n > 2) else n for n in s)
        if t == s:
            return out
        out.append(t)


def _schedule(shape, cycle, nu_pre, nu_post, nu_coarse=1):
    """Smoothing calls (grid shape, nu) of ONE multigrid cycle: the textbook
    recursion (V: one coarse-grid cycle; W: two; F: an F- followed by a
    V-cycle; the coarsest grid is visited once per arrival), which is the
    diagram of the emg3d.solve docstring."""
    lv = _levels(shape)
    L = len(lv)-1
    seq = []

    def cyc(lev, kind):
        if lev == L:
            seq.append((lv[lev], nu_coarse))
            return
        if nu_pre > 0:
            seq.append((lv[lev], nu_pre))
        cyc(lev+1, kind)
        if lev+1 < L and kind != 'V':
            cyc(lev+1, 'V' if kind == 'F' else 'W')
        if nu_post > 0:
            seq.append((lv[lev], nu_post))
    cyc(0, cycle)
    return seq


def _solve(emg3d, spec, S, tol, maxit=60, efield=None, spy=False, **extra):
    """One stand-alone multigrid solve; returns (efield, info, calls)."""
    kw = dict(cycle=spec['cycle'], return_info=True, verb=-1, tol=tol,
              nu_pre=spec['nu'][0], nu_post=spec['nu'][1], maxit=maxit)
    kw.update(extra)
    if spec.get('plain', False):
        args, kw['plain'] = (), True
    else:
        args = ()
        kw.update(sslsolver=False, semicoarsening=False,
                  linerelaxation=False)
    if efield is not None:
        kw['efield'] = efield
    calls = []
    mod = emg3d.solver
    orig = mod.smoothing
    if spy:
        def recorder(model, sfield, efield, nu, lr_dir):
            calls.append((tuple(int(n) for n in model.grid.shape_cells),
                          int(nu), int(lr_dir)))
            return orig(model, sfield, efield, nu, lr_dir)
        mod.smoothing = recorder
    try:
        out = emg3d.solve(S['model'], S['sf'], *args, **kw)
    finally:
        mod.smoothing = orig
    if efield is None:
        efield, info = out
    else:
        info = out
    return efield, info, calls


def _check_schedule(calls, info, shape, cycle, nus, where):
    """nus = (nu_init, nu_pre, nu_coarse, nu_post)."""
    if not calls:
        raise HarnessError("C06: emg3d.solver.smoothing was not called "
                           "during a multigrid solve; the schedule oracle "
                           "cannot observe the cycle")
    it = int(info['it_mg'])
    one = _schedule(shape, cycle, nus[1], nus[3], nus[2])
    exp = ([(tuple(shape), nus[0])] if nus[0] > 0 else []) + one*it
    # a call with nu=0 is a no-op (zero Gauss-Seidel steps): not a visit
    got = [(a, b) for a, b, _ in calls if b > 0]
    if any(c != 0 for _, _, c in calls):
        raise Violation(f"schedule_line_relaxation:{cycle}",
                        f"{where}: linerelaxation=False, but smoothing was "
                        f"called with lr_dir {sorted({c for *_, c in calls})}")
    if got != exp:
        k = next((i for i, (a, b) in enumerate(zip(got, exp)) if a != b),
                 min(len(got), len(exp)))
        def visits(seq):
            d = {}
            for shp, nu in seq:
                d[shp] = d.get(shp, 0) + 1
            return {'x'.join(map(str, s)): v for s, v in d.items()}
        raise Violation(
            f"cycle_schedule:{cycle}",
            f"{where}: shape {tuple(shape)}, cycle {cycle}, nu(init,pre,"
            f"coarse,post)={list(nus)}, {it} cycle(s): {len(got)} smoothing "
            f"calls, expected {len(exp)}; first difference at call {k}: "
            f"got {got[k] if k < len(got) else None}, expected "
            f"{exp[k] if k < len(exp) else None}; visits per grid got "
            f"{visits(got)}, expected {visits(exp)}")
    fine = float(np.prod(shape))
    return sum(np.prod(s)*nu for s, nu in one)/fine


def _run(emg3d, spec, shape, h, fam, extras=False):
    """Solve on one grid; returns a dict with independent figures."""
    tol = _tol(spec)
    maxit = 60
    S = _setup(emg3d, spec, shape, h)
    e, info, _ = _solve(emg3d, spec, S, tol, maxit)
    tag = 'x'.join(map(str, shape))
    err = np.asarray(info['error_at_cycle'], float)
    it = int(info['it_mg'])
    ex = int(info['exit'])
    ref = float(np.linalg.norm(S['sf'].field))
    rn, rref, floor = _true_residual(emg3d, S, e)
    ctx = f"{tag}, nu={spec['nu']}, tol={tol:g}"
    if ex != 0 and not (np.all(np.isfinite(err)) and np.isfinite(rn)):
        # diverged: reported as failure by the solver; nothing to compare
        return {'exit': ex, 'it': it, 'msg': str(info['exit_message']),
                'rho': float('inf'), 'worst': float('inf'),
                'last': float('inf'), 'first': float('inf'), 'tol': tol}
    # --- the info dict describes the returned field -------------------------
    if abs(float(info['ref_error']) - ref) > 1e-12*ref:
        raise Violation(f"info_ref_error:{fam}",
                        f"{ctx}: ref_error {info['ref_error']!r} vs "
                        f"||sfield|| = {ref!r}")
    if not (1 <= it <= maxit) or len(err) != it+1:
        raise Violation(f"info_cycle_count:{fam}",
                        f"{ctx}: it_mg={it}, maxit={maxit}, "
                        f"{len(err)} entries in error_at_cycle")
    ae = float(info['abs_error'])
    if not _close(ae, rn) or (rref is not None and
                              not _close(rref, rn, floor)):
        raise Violation(f"info_abs_error:{fam}",
                        f"{ctx}: abs_error {ae:.6e} but ||s-Ae|| of the "
                        f"returned field = {rn:.6e} (emg3d.solver.residual)"
                        f", {rref} (vp.refop, floor {floor:.1e})")
    if (abs(err[0]-ref) > 1e-12*ref or abs(err[-1]-ae) > 1e-12*ae or
            abs(float(info['rel_error'])*ref - ae) > 1e-12*ae):
        raise Violation(f"info_error_at_cycle:{fam}",
                        f"{ctx}: error_at_cycle[0]={err[0]!r} (||s||="
                        f"{ref!r}), error_at_cycle[-1]={err[-1]!r}, "
                        f"rel_error={info['rel_error']!r} "
                        f"(abs_error={ae!r})")
    if ex == 0 and rn >= tol*ref*(1+1e-9):
        raise Violation(f"converged_above_tol:{fam}",
                        f"{ctx}: CONVERGED after {it} cycles, but ||s-Ae||/"
                        f"||s|| = {rn/ref:.3e}")
    q = err[1:]/err[:-1]
    out = {'exit': ex, 'it': it, 'msg': str(info['exit_message']),
           'rho': float((rn/ref)**(1.0/it)),
           'worst': float(np.max(q[1:])) if len(q) > 1 else float(q[0]),
           'last': float(q[-1]), 'first': float(q[0]), 'tol': tol}
    if not extras or ex != 0 or it < 2:
        return out
    # --- prefix, schedule and restart on the SAME model / source objects ----
    j = min(int(spec.get('jcut', 1)), it-1)
    ej, infoj, calls = _solve(emg3d, spec, S, tol, maxit=j, spy=True)
    work = _check_schedule(calls, infoj, shape, spec['cycle'],
                           (0, spec['nu'][0], 1, spec['nu'][1]),
                           f"maxit={j}")
    rj, rjref, floorj = _true_residual(emg3d, S, ej)
    if (int(infoj['it_mg']) != j or not _close(rj, err[j]) or
            not _close(rjref, rj, floorj)):
        raise Violation(f"prefix_history:{fam}",
                        f"{ctx}: same objects solved again with maxit={j}: "
                        f"it_mg={infoj['it_mg']}, ||s-Ae||={rj:.6e} "
                        f"(vp.refop: {rjref:.6e}); "
                        f"error_at_cycle[{j}] of the full solve {err[j]:.6e}")
    info2 = _solve(emg3d, spec, S, tol, maxit, efield=ej)[1]
    err2 = np.asarray(info2['error_at_cycle'], float)
    r2 = _true_residual(emg3d, S, ej)[0]
    ok = (int(info2['exit']) == 0 and int(info2['it_mg']) == it-j and
          len(err2) == it-j+1 and
          all(_close(a, b) for a, b in zip(err2[1:], err[j+1:]))
          and _close(r2, rn))
    if not ok:
        raise Violation(f"restart_history:{fam}",
                        f"{ctx}: continued from the field after {j} of {it} "
                        f"cycles: exit={info2['exit']}, it_mg="
                        f"{info2['it_mg']}, errors {err2[1:].tolist()} vs "
                        f"{err[j+1:].tolist()}; final ||s-Ae||={r2:.6e} vs "
                        f"{rn:.6e}")
    out['work'] = float(work)
    out['jcut'] = j
    return out


def _sizes(spec):
    sizes = [8, 16, 32]
    if spec['big'] in (True, 'nc'):
        sizes.append(64)
    if spec['huge']:
        sizes.append(128)
    return sizes


def _nc_shape(spec):
    if spec['noncubic'] is None:
        return None
    base = NONCUBIC[spec['noncubic']]
    p = PERMS[spec.get('perm', 0)]
    return tuple(base[i] for i in p)


def _fam(spec):
    return (f"{spec['cycle']}:{_medium_name(spec)}:"
            f"{'s' if spec['laplace'] else 'f'}")


def _family(emg3d, spec, sizes=None):
    """All solves of a family; {size or 'nc': result dict}."""
    fam = _fam(spec)
    res = {}
    for n in (sizes or _sizes(spec)):
        res[n] = _run(emg3d, spec, (n, n, n), 1000.0/n, fam, extras=(n == 16))
    shp = _nc_shape(spec)
    if shp is not None:
        res['nc'] = _run(emg3d, spec, shp, 1000.0/max(shp), fam)
    return res


def _axis_order(shp):
    return ''.join('xyz'[i] for i in np.argsort([-n for n in shp],
                                                kind='stable'))


def case_family(spec, rec):
    import emg3d
    sizes = _sizes(spec)
    fam = _fam(spec)
    res = _family(emg3d, spec)
    nc = res.pop('nc', None)
    shp = _nc_shape(spec)
    nus = sum(spec['nu'])
    asp = _aspect(spec)
    kind = int(spec['aniso'] or asp != ASPECTS[0])
    cap = CAPS[kind][nus]
    capw = CAPS_W[kind][nus]
    for n, r in list(res.items()) + ([('nc', nc)] if nc else []):
        if r['exit'] != 0:
            raise Violation(f"not_converged:{fam}",
                            f"n={n}: {r['msg']} after {r['it']} cycles "
                            f"(rho={r['rho']:.3f}); nu={spec['nu']}")
    r16, it16, w16 = res[16]['rho'], res[16]['it'], res[16]['worst']
    for n, r in res.items():
        it, rho, w = r['it'], r['rho'], r['worst']
        if n >= 16 and rho > 1.5*r16 + 0.02:
            raise Violation(f"rate_deteriorates_with_refinement:{fam}",
                            f"rho({n})={rho:.3f} vs rho(16)={r16:.3f}; "
                            f"nu={spec['nu']}")
        if n >= 16 and rho > cap:
            raise Violation(f"rate_above_cap:{fam}",
                            f"rho({n})={rho:.3f} > cap {cap:.3f} "
                            f"(nu={spec['nu']})")
        # three extra cycles, or 30 % for slow families (V(1,1) on
        # stretched cells needs 14 cycles at 16^3 and 18 at 32^3 AND 64^3:
        # pre-asymptotic at 16^3, within the rate bound above)
        if n >= 16 and it > max(it16 + 3, int(np.ceil(1.3*it16))):
            raise Violation(f"cycles_grow_with_refinement:{fam}",
                            f"{it} cycles at n={n}, {it16} at 16")
        if n >= 16 and (w > capw or w > 1.6*w16 + 0.03):
            raise Violation(f"worst_cycle_factor:{fam}",
                            f"largest per-cycle factor after the first cycle "
                            f"at n={n}: {w:.3f} (average {rho:.3f}); at 16: "
                            f"{w16:.3f}; cap {capw:.3f}; nu={spec['nu']}, "
                            f"tol={r['tol']:g}")
    if nc:
        it, rho, w = nc['it'], nc['rho'], nc['worst']
        if rho > cap or rho > 1.5*r16 + 0.05 or it > max(it16 + 4, int(np.ceil(1.3*it16)) + 1):
            raise Violation(f"noncubic_rate:{fam}",
                            f"shape {shp}: rho="
                            f"{rho:.3f}, {it} cycles; rho(16)={r16:.3f}, "
                            f"cap {cap:.3f}")
        if w > capw:
            raise Violation(f"noncubic_worst_cycle_factor:{fam}",
                            f"shape {shp}: largest per-cycle factor after "
                            f"the first cycle {w:.3f} > cap {capw:.3f} "
                            f"(average {rho:.3f}); nu={spec['nu']}")
    rec.cls(f"cycle={spec['cycle']}", f"aniso={spec['aniso']}",
            f"medium={_medium_name(spec)}",
            f"laplace={spec['laplace']}", f"nu_total={nus}",
            f"max_size={max(sizes)}", f"noncubic={nc is not None}",
            f"nu_zero={'pre' if spec['nu'][0] == 0 else 'post' if spec['nu'][1] == 0 else 'no'}",
            f"origin={spec.get('origin', 0)}",
            f"aspect={'x'.join(f'{a:g}' for a in asp)}",
            f"plain_spelling={spec.get('plain', False)}",
            f"tol={_tol(spec):g}",
            f"jcut={res[16].get('jcut')}")
    if spec['aniso'] and spec.get('acase', 'tri') == 'tri':
        rec.cls("tri_order=" + ''.join(
            f"{v:g}" for v in _props(spec)))
    if nc:
        rec.cls(f"noncubic_order={_axis_order(shp)}")
    rec.nt([spec['cycle'], spec['aniso'], spec.get('acase'), spec['laplace'],
            spec['nu'],
            spec['src'], spec['f'], max(sizes)])
    rec.note({'family': fam, 'nu': spec['nu'],
              'rho': {str(n): round(v['rho'], 4) for n, v in res.items()},
              'worst': {str(n): round(v['worst'], 4)
                        for n, v in res.items()},
              'cycles': {str(n): v['it'] for n, v in res.items()},
              'work_per_cycle_16': round(res[16].get('work', 0.0), 3),
              'noncubic': None if nc is None else
              [list(shp), round(nc['rho'], 4), round(nc['worst'], 4),
               nc['it']]})


# ------------------------------------------------------- schedule sub-check
def visits_strategy():
    return st.fixed_dictionaries({
        'cycle': st.sampled_from(['F', 'V', 'W']),
        'shape': st.integers(0, len(VSHAPES)-1),
        'perm': st.integers(0, 5),
        'aniso': st.booleans(),
        'acase': st.sampled_from(list(MEDIA)),
        'tperm': st.integers(0, 5),
        'laplace': st.booleans(),
        # nu_init, nu_pre, nu_coarse, nu_post
        'nus': st.tuples(st.integers(0, 2), st.integers(0, 3),
                         st.integers(1, 3), st.integers(0, 3)).filter(
            lambda t: t[1]+t[3] >= 1).map(list),
        'maxit': st.integers(1, 3),
        'src': st.tuples(st.floats(0.3, 0.7), st.floats(0.3, 0.7),
                         st.floats(0.3, 0.7), st.floats(-180, 180),
                         st.floats(-90, 90)).map(list),
        'f': st.floats(-0.5, 0.5).map(lambda u: float(10**u)),
        'origin': st.sampled_from([0, 1, 2]),
        'plain': st.booleans(),
    })


def case_visits(spec, rec):
    """The sequence of smoothing calls of 1..3 cycles is the V/F/W schedule
    (exact, no thresholds); bounds the work per cycle (O(N) clause)."""
    import emg3d
    base = VSHAPES[spec['shape']]
    shape = tuple(base[i] for i in PERMS[spec['perm']])
    nus = spec['nus']
    sp = dict(spec, nu=[nus[1], nus[3]], big=False, huge=False)
    S = _setup(emg3d, sp, shape, 1000.0/max(shape))
    # tol below anything 3 cycles can reach: all requested cycles are run
    e, info, calls = _solve(emg3d, sp, S, 1e-30, maxit=spec['maxit'],
                            spy=True, nu_init=nus[0], nu_coarse=nus[2])
    if int(info['it_mg']) != spec['maxit']:
        raise Violation(f"cycles_run:{spec['cycle']}",
                        f"maxit={spec['maxit']}, tol=1e-30: it_mg="
                        f"{info['it_mg']} ({info['exit_message']})")
    work = _check_schedule(calls, info, shape, spec['cycle'], nus, 'visits')
    # O(N): work per cycle in fine-grid smoothing sweeps is bounded
    # independently of the grid size (geometric series with ratio 1/8 x the
    # number of visits: V 8/7, F (8/7)^2, W 4/3) when every direction halves
    L = len(_levels(shape))-1
    rec.cls(f"cycle={spec['cycle']}", f"levels={L}",
            f"cubic={len(set(shape)) == 1}", f"maxit={spec['maxit']}",
            f"nu_init={nus[0]}", f"nu_coarse={nus[2]}",
            f"nu_zero={'pre' if nus[1] == 0 else 'post' if nus[3] == 0 else 'no'}",
            f"order={_axis_order(shape)}")
    rec.nt([spec['cycle'], list(shape), nus, spec['maxit']])
    rec.note({'shape': list(shape), 'cycle': spec['cycle'], 'nus': nus,
              'calls': len(calls), 'work_per_cycle': round(float(work), 3)})


SUBS = {'family': case_family, 'family64': case_family,
        'family128': case_family, 'visits': case_visits}


def run(ctx):
    ctx.regression(SUBS)
    if ctx.quick:
        ctx.explore('visits', visits_strategy(), case_visits, ctx.n(40, 40),
                    shrink=False)
        # every medium in every run: 6 media x 2 families (isotropic: 3,
        # it also carries the cell-aspect dimension)
        for k, med in enumerate(['iso'] + list(MEDIA)):
            ctx.explore('family', spec_strategy(False, medium=med),
                        case_family, ctx.n(3 if med == 'iso' else 2, 2),
                        shrink=False, salt=k)
        ctx.explore('family64', spec_strategy(True), case_family,
                    ctx.n(2, 2), shrink=False)
    else:
        ctx.explore('visits', visits_strategy(), case_visits,
                    ctx.n(40, 150), shrink=False)
        ctx.explore('family', spec_strategy(False), case_family,
                    ctx.n(10, 14), shrink=False)
        ctx.explore('family64', spec_strategy('nc'), case_family,
                    ctx.n(2, 6), shrink=False)
        if ctx.shard[0] < 4:
            ctx.explore('family128', spec_strategy(True, True), case_family,
                        1, shrink=False)

"""C06 - grid-size independent multigrid convergence on the showcase."""
import numpy as np
from hypothesis import strategies as st

from vp.framework import Violation

RULE = ("A family = (cycle F/V/W, isotropic, triaxial 1:2:3, HTI or VTI "
        "(factor 2 either way) medium, "
        "frequency or Laplace domain, nu_pre, nu_post in 1..3) plus a "
        "Hypothesis-drawn electric point source (position in the central "
        "40 % of the domain, any azimuth/elevation) and frequency "
        "(0.3..3 Hz); the same draw is solved with stand-alone multigrid "
        "(tol 1e-8) on uniform grids of 8, 16, 32 (a share also 64 and a non-cubic "
        "2^a x 3*2^b x 5*2^c shape with cubic cells; thorough: 128 and more "
        "non-cubic shapes) cells per direction over the same 1 km cube.  Oracle "
        "(metamorphic in grid size): all sizes converge; average reduction "
        "factor rho(n) <= 1.5*rho(16)+0.02 for n >= 16 and <= an absolute "
        "cap per (medium, nu_pre+nu_post) = 1.5 x the largest factor "
        "measured on the pinned tree; cycles(n) <= cycles(16)+3.  "
        "Non-trivial = every family (all sizes converged); distinct by the "
        "whole draw.")
ASSUMPTIONS = [
    "absolute caps: table CAPS below = 1.5 x max factor measured over 216 "
    "family/source draws at 16^3 and 32^3 on the pinned tree (isotropic and "
    "triaxial 1:2:3; the factor-2 HTI/VTI media were measured to converge "
    "faster than the triaxial one for every nu_pre+nu_post, 168 draws)",
    "h-independence threshold 1.5*rho(16)+0.02 (measured rho(32)/rho(16) "
    "in [0.85, 1.23])",
]
SHARDS = {'quick': 1, 'thorough': 16}

# measured max average reduction factor (over cycles, domains, sources)
MEASURED = {
    0: {2: 0.214, 3: 0.154, 4: 0.109, 5: 0.083, 6: 0.063},
    1: {2: 0.409, 3: 0.276, 4: 0.186, 5: 0.127, 6: 0.095},
}
CAPS = {a: {k: 1.5*v for k, v in d.items()} for a, d in MEASURED.items()}
NONCUBIC = [(32, 24, 20), (16, 48, 40), (40, 16, 24), (64, 24, 40),
            (48, 40, 32), (20, 12, 16)]


MEDIA = {
    'tri': dict(property_x=1.0, property_y=2.0, property_z=3.0),
    'HTI': dict(property_x=1.0, property_y=2.0),
    'HTIi': dict(property_x=2.0, property_y=1.0),
    'VTI': dict(property_x=1.0, property_z=2.0),
    'VTIi': dict(property_x=2.0, property_z=1.0),
}


def spec_strategy(big, huge=False, medium=None):
    fixed = {}
    if medium is not None:
        fixed = {'aniso': st.just(medium != 'iso'),
                 'acase': st.just('tri' if medium == 'iso' else medium)}
    return st.fixed_dictionaries({
        'cycle': st.sampled_from(['F', 'V', 'W']),
        'aniso': st.booleans(),
        # which mild anisotropy (used if aniso): triaxial 1:2:3, or a factor
        # two between the horizontal directions (HTI) / horizontal and
        # vertical (VTI), either way round
        'acase': st.sampled_from(list(MEDIA)),
        'laplace': st.booleans(),
        'nu': st.tuples(st.integers(1, 3), st.integers(1, 3)).map(list),
        'src': st.tuples(st.floats(0.3, 0.7), st.floats(0.3, 0.7),
                         st.floats(0.3, 0.7), st.floats(-180, 180),
                         st.floats(-90, 90)).map(list),
        'f': st.floats(-0.5, 0.5).map(lambda u: float(10**u)),
        'big': st.just(big),
        'huge': st.just(huge),
        # non-cubic 2^a x 3*2^b x 5*2^c shapes (cubic cells): all of them in
        # the thorough tier, the two cheapest ones also in the quick tier
        'noncubic': st.sampled_from([None] + list(range(len(NONCUBIC))))
        if huge or big == 'nc' else st.sampled_from([None, 0, 5, 0, 5]),
        **fixed,
    })


def _run(emg3d, spec, shape, h):
    L = [n*h for n in shape]
    grid = emg3d.TensorMesh([np.ones(n)*h for n in shape], origin=(0, 0, 0))
    model = (emg3d.Model(grid, **MEDIA[spec.get('acase', 'tri')])
             if spec['aniso'] else emg3d.Model(grid, 1.0))
    s = spec['src']
    coo = (s[0]*L[0], s[1]*L[1], s[2]*L[2], s[3], s[4])
    f = -spec['f'] if spec['laplace'] else spec['f']
    sf = emg3d.get_source_field(grid, coo, frequency=f)
    _, info = emg3d.solve(model, sf, sslsolver=False, semicoarsening=False,
                          linerelaxation=False, cycle=spec['cycle'],
                          return_info=True, verb=-1, tol=1e-8,
                          nu_pre=spec['nu'][0], nu_post=spec['nu'][1],
                          maxit=60)
    err = np.asarray(info['error_at_cycle'], float)
    it = int(info['it_mg'])
    rho = float((err[-1]/err[0])**(1.0/max(1, len(err)-1)))
    return int(info['exit']), it, rho, str(info['exit_message'])


def case_family(spec, rec):
    import emg3d
    sizes = [8, 16, 32]
    if spec['big'] in (True, 'nc'):
        sizes.append(64)
    if spec['huge']:
        sizes.append(128)
    fam = (f"{spec['cycle']}:"
           f"{spec.get('acase', 'tri') if spec['aniso'] else 'iso'}:"
           f"{'s' if spec['laplace'] else 'f'}")
    res = {}
    for n in sizes:
        res[n] = _run(emg3d, spec, (n, n, n), 1000.0/n)
    nc = None
    if spec['noncubic'] is not None:
        shp = NONCUBIC[spec['noncubic']]
        nc = _run(emg3d, spec, shp, 1000.0/max(shp))
    nus = sum(spec['nu'])
    cap = CAPS[int(spec['aniso'])][nus]
    for n, (ex, it, rho, msg) in list(res.items()) + (
            [('nc', nc)] if nc else []):
        if ex != 0:
            raise Violation(f"not_converged:{fam}",
                            f"n={n}: {msg} after {it} cycles (rho={rho:.3f})"
                            f"; nu={spec['nu']}")
    r16, it16 = res[16][2], res[16][1]
    for n, (ex, it, rho, msg) in res.items():
        if n >= 16 and rho > 1.5*r16 + 0.02:
            raise Violation(f"rate_deteriorates_with_refinement:{fam}",
                            f"rho({n})={rho:.3f} vs rho(16)={r16:.3f}; "
                            f"nu={spec['nu']}")
        if n >= 16 and rho > cap:
            raise Violation(f"rate_above_cap:{fam}",
                            f"rho({n})={rho:.3f} > cap {cap:.3f} "
                            f"(nu={spec['nu']})")
        if n >= 16 and it > it16 + 3:
            raise Violation(f"cycles_grow_with_refinement:{fam}",
                            f"{it} cycles at n={n}, {it16} at 16")
    if nc:
        ex, it, rho, msg = nc
        if rho > cap or rho > 1.5*r16 + 0.05 or it > it16 + 4:
            raise Violation(f"noncubic_rate:{fam}",
                            f"shape {NONCUBIC[spec['noncubic']]}: rho="
                            f"{rho:.3f}, {it} cycles; rho(16)={r16:.3f}, "
                            f"cap {cap:.3f}")
    rec.cls(f"cycle={spec['cycle']}", f"aniso={spec['aniso']}",
            f"medium={spec.get('acase', 'tri') if spec['aniso'] else 'iso'}",
            f"laplace={spec['laplace']}", f"nu_total={nus}",
            f"max_size={max(sizes)}", f"noncubic={nc is not None}")
    rec.nt([spec['cycle'], spec['aniso'], spec.get('acase'), spec['laplace'],
            spec['nu'],
            spec['src'], spec['f'], max(sizes)])
    rec.note({'family': fam, 'nu': spec['nu'],
              'rho': {str(n): round(v[2], 4) for n, v in res.items()},
              'cycles': {str(n): v[1] for n, v in res.items()},
              'noncubic': None if nc is None else [round(nc[2], 4), nc[1]]})


SUBS = {'family': case_family, 'family64': case_family,
        'family128': case_family}


def run(ctx):
    ctx.regression(SUBS)
    if ctx.quick:
        # every medium in every run: 6 media x 2 families
        for k, med in enumerate(['iso'] + list(MEDIA)):
            ctx.explore('family', spec_strategy(False, medium=med),
                        case_family, ctx.n(2, 2), shrink=False, salt=k)
        ctx.explore('family64', spec_strategy(True), case_family,
                    ctx.n(2, 2), shrink=False)
    else:
        ctx.explore('family', spec_strategy(False), case_family,
                    ctx.n(10, 14), shrink=False)
        ctx.explore('family64', spec_strategy('nc'), case_family,
                    ctx.n(2, 6), shrink=False)
        if ctx.shard[0] < 4:
            ctx.explore('family128', spec_strategy(True, True), case_family,
                        1, shrink=False)

"""C04 - restriction = prolongation^T; coarse model conserves volumes."""
import numpy as np
import scipy.sparse as sp
from hypothesis import strategies as st

from vp import gen, refop
from vp.framework import Violation

RULE = ("For each of the 7 coarsening patterns (0 = full, 1..6 semi) a fine "
        "grid is generated whose coarsened directions have an even number "
        ">=4 of cells (2..7 otherwise), with uniform/stretched/random widths, "
        "real or complex fields and any anisotropy case.  The FULL fine edge "
        "basis goes through solver.restriction -> matrix R and the FULL "
        "coarse edge basis through solver.prolongation -> matrix P; oracles: "
        "R[int_c,int_f] == P[int_f,int_c]^T, P == checker's reference "
        "(piecewise constant along / linear across, from node coordinates), "
        "P >= 0, interior rows sum to 1, prolongation adds and leaves "
        "boundary edges bit-identical, coarse nodes = every second node, "
        "coarse eta/zeta = sum of children, coarse field zero and of source "
        "dtype, core.restrict == its py_func.  Non-trivial = non-uniform "
        "widths; distinct by (pattern, shape, seed).")
ASSUMPTIONS = [
    "reference prolongation built from node coordinates with 1-D linear "
    "interpolation / piecewise-constant Kronecker factors (vp code, no "
    "emg3d import)",
    "tolerance 1e4 eps relative to row scale",
]
SHARDS = {'quick': 1, 'thorough': 16}
C_EPS = 1e4*np.finfo(float).eps


def spec_strategy(sc):
    coarse = [4, 6, 8, 10]
    other = [2, 3, 4, 5, 6, 7]
    cx = sc not in (1, 5, 6)
    cy = sc not in (2, 4, 6)
    cz = sc not in (3, 4, 5)
    counts = [coarse if c else other for c in (cx, cy, cz)]
    return st.fixed_dictionaries({
        'sc': st.just(sc),
        'grid': gen.grid_spec(counts),
        'model': gen.model_spec(epsr=False),
        'laplace': st.booleans(),
        'fseed': gen.SEED,
        'pyfunc': st.integers(0, 5).map(lambda k: k == 0),
    }).filter(lambda s: _nedges(s['grid']['n']) <= 2200)


def _nedges(n):
    nx, ny, nz = n
    return nx*(ny+1)*(nz+1) + (nx+1)*ny*(nz+1) + (nx+1)*(ny+1)*nz


def _lin1d(xf, xc, coarsen):
    """fine nodes x coarse nodes linear interpolation matrix."""
    if not coarsen:
        return sp.identity(len(xf), format='csr')
    M = sp.lil_matrix((len(xf), len(xc)))
    for i, x in enumerate(xf):
        if i % 2 == 0:
            M[i, i//2] = 1.0
        else:
            k = i//2
            w = (x - xc[k])/(xc[k+1]-xc[k])
            M[i, k] = 1-w
            M[i, k+1] = w
    return M.tocsr()


def _const1d(n, coarsen):
    """fine cells x coarse cells piecewise-constant matrix."""
    if not coarsen:
        return sp.identity(n, format='csr')
    M = sp.lil_matrix((n, n//2))
    for i in range(n):
        M[i, i//2] = 1.0
    return M.tocsr()


def reference_P(nodes, shape, coars):
    """Reference prolongation (all fine edges x all coarse edges), with rows
    of tangential boundary fine edges zeroed."""
    cn = [x[::2] if c else x for x, c in zip(nodes, coars)]
    L = [_lin1d(x, xc, c) for x, xc, c in zip(nodes, cn, coars)]
    K = [_const1d(n, c) for n, c in zip(shape, coars)]
    Px = sp.kron(L[2], sp.kron(L[1], K[0]))
    Py = sp.kron(L[2], sp.kron(K[1], L[0]))
    Pz = sp.kron(K[2], sp.kron(L[1], L[0]))
    P = sp.block_diag([Px, Py, Pz]).tocsr()
    m = refop.interior_mask(*shape)
    return sp.diags(m.astype(float)) @ P


def case_transfer(spec, rec):
    import emg3d
    from emg3d import solver, core
    sc = spec['sc']
    h, origin = gen.build_widths(spec['grid'])
    grid = emg3d.TensorMesh(h, origin=origin)
    shape = tuple(int(n) for n in grid.shape_cells)
    coars = (sc not in (1, 5, 6), sc not in (2, 4, 6), sc not in (3, 4, 5))
    freq = -1.3 if spec['laplace'] else 1.3
    model, _ = gen.build_model(grid, spec['model'], 1.0)
    case = spec['model']['case']
    sfield = emg3d.Field(grid, frequency=freq)
    dt = sfield.field.dtype
    vm = emg3d.models.VolumeModel(model, sfield)
    ne = grid.n_edges

    zero_res = emg3d.Field(grid, frequency=freq)
    cmodel, csf0, cef0 = solver.restriction(vm, sfield, zero_res, sc)
    cg = cmodel.grid
    cshape = tuple(int(n) for n in cg.shape_cells)
    exp_cshape = tuple(n//2 if c else n for n, c in zip(shape, coars))
    if cshape != exp_cshape:
        raise Violation(f"coarse_shape:sc{sc}",
                        f"{shape} -> {cshape}, expected {exp_cshape}")
    nodes = [grid.nodes_x, grid.nodes_y, grid.nodes_z]
    cnodes = [cg.nodes_x, cg.nodes_y, cg.nodes_z]
    for d in range(3):
        ref = nodes[d][::2] if coars[d] else nodes[d]
        ext = nodes[d][-1]-nodes[d][0]
        if ref.shape != cnodes[d].shape or np.any(
                np.abs(ref-cnodes[d]) > 1e-12*ext):
            raise Violation(f"coarse_nodes:sc{sc}:dir{d}",
                            "coarse nodes are not every second fine node")
    # coarse fields
    for nm, f in (('csfield', csf0), ('cefield', cef0)):
        if f.field.dtype != dt:
            raise Violation(f"coarse_dtype:{nm}", f"{f.field.dtype} vs {dt}")
        if np.any(f.field != 0):
            raise Violation(f"coarse_nonzero:{nm}",
                            "coarse field of zero residual not zero")

    # coarse model = sum of children
    def children_sum(p):
        rx, ry, rz = (2 if c else 1 for c in coars)
        return sum(p[i::rx, j::ry, k::rz] for i in range(rx)
                   for j in range(ry) for k in range(rz))
    for nm in ('eta_x', 'eta_y', 'eta_z', 'zeta'):
        ref = children_sum(getattr(vm, nm))
        got = getattr(cmodel, nm)
        if got.shape != ref.shape or np.any(
                np.abs(got-ref) > 1e-13*np.abs(ref)):
            raise Violation(f"coarse_model:{nm}:sc{sc}",
                            f"coarse {nm} is not the sum of its children "
                            f"(case {case})")
        if abs(got.sum()-getattr(vm, nm).sum()) > 1e-12*abs(
                getattr(vm, nm)).sum():
            raise Violation(f"coarse_model_total:{nm}:sc{sc}",
                            "total not conserved")

    # --- R: full fine basis -------------------------------------------
    nce = csf0.field.size
    R = np.zeros((nce, ne))
    r = emg3d.Field(grid, frequency=freq)
    for j in range(ne):
        r.field[j] = 1.0
        _, csf, _ = solver.restriction(vm, sfield, r, sc)
        col = csf.field
        if np.iscomplexobj(col) and np.any(col.imag != 0):
            raise Violation("restriction_not_real_linear",
                            "real basis residual gives complex restriction")
        R[:, j] = col.real
        r.field[j] = 0.0
    # --- P: full coarse basis ------------------------------------------
    cgT = emg3d.TensorMesh(cg.h, cg.origin)
    P = np.zeros((ne, nce))
    c = emg3d.Field(cgT, frequency=freq)
    for J in range(nce):
        c.field[J] = 1.0
        e = emg3d.Field(grid, frequency=freq)
        solver.prolongation(e, c, sc)
        P[:, J] = e.field.real
        c.field[J] = 0.0
    mf = refop.interior_mask(*shape)
    mc = refop.interior_mask(*cshape)
    Pref = reference_P(nodes, shape, coars).toarray()

    D = np.abs(P - Pref)
    if np.any(D > C_EPS):
        i, J = np.unravel_index(np.argmax(D), D.shape)
        comp = 'xyz'[int(i >= grid.n_edges_x) +
                     int(i >= grid.n_edges_x+grid.n_edges_y)]
        bnd = 'interior' if mf[i] else 'boundary'
        raise Violation(f"prolongation_mismatch:sc{sc}:e{comp}:{bnd}",
                        f"P[{i},{J}]={P[i, J]:.6g} ref {Pref[i, J]:.6g}; "
                        f"shape {shape}")
    if P.min() < -C_EPS:
        raise Violation(f"prolongation_negative:sc{sc}", f"min {P.min()}")
    rs = P[mf].sum(axis=1)
    if np.any(np.abs(rs-1) > C_EPS):
        raise Violation(f"prolongation_rowsum:sc{sc}",
                        f"row sums in [{rs.min()}, {rs.max()}]")
    Dt = np.abs(R[np.ix_(mc, mf)] - P[np.ix_(mf, mc)].T)
    if Dt.size and np.any(Dt > C_EPS):
        I, j = np.unravel_index(np.argmax(Dt), Dt.shape)
        ci = np.flatnonzero(mc)[I]
        comp = 'xyz'[int(ci >= cgT.n_edges_x) +
                     int(ci >= cgT.n_edges_x+cgT.n_edges_y)]
        raise Violation(f"restriction_not_transpose:sc{sc}:e{comp}",
                        f"max |R - P^T| = {Dt.max():.3e}; shape {shape}")

    # --- additivity / boundary untouched / complex linearity -------------
    e0 = gen.random_field(grid, spec['fseed'], freq, salt=21, pec=False)
    cc = gen.random_field(cgT, spec['fseed'], freq, salt=22, pec=False)
    before = e0.field.copy()
    solver.prolongation(e0, cc, sc)
    inc = e0.field - before
    ref = Pref @ cc.field
    scl = np.abs(Pref) @ np.abs(cc.field) + np.abs(before)
    if np.any(np.abs(inc-ref) > C_EPS*(scl+scl.max()*1e-3)):
        raise Violation(f"prolongation_not_additive:sc{sc}",
                        "prolongation(e, c) != e + P c for random e, c")
    if np.any(e0.field[~mf] != before[~mf]):
        raise Violation(f"prolongation_touches_boundary:sc{sc}",
                        "tangential boundary edges modified")
    rr = gen.random_field(grid, spec['fseed'], freq, salt=23, pec=False)
    _, csf, _ = solver.restriction(vm, sfield, rr, sc)
    ref = R @ rr.field
    scl = np.abs(R) @ np.abs(rr.field)
    if np.any(np.abs(csf.field-ref) > C_EPS*(scl+scl.max()*1e-3)):
        raise Violation(f"restriction_not_linear:sc{sc}",
                        "restriction(random) != R @ random")

    # --- compiled vs python source ---------------------------------------
    if spec['pyfunc']:
        rec.cls('pyfunc')
        wx, wy, wz = solver._get_restriction_weights(vm.grid, cg, sc)
        a = emg3d.Field(cgT, frequency=freq)
        b = emg3d.Field(cgT, frequency=freq)
        core.restrict(a.fx, a.fy, a.fz, rr.fx, rr.fy, rr.fz, wx, wy, wz, sc)
        core.restrict.py_func(b.fx, b.fy, b.fz, rr.fx, rr.fy, rr.fz,
                              wx, wy, wz, sc)
        if np.any(np.abs(a.field-b.field) > C_EPS*(scl+scl.max()*1e-3)):
            raise Violation(f"restrict_jit_vs_pyfunc:sc{sc}",
                            f"max {np.abs(a.field-b.field).max():.3e}")

    kind = spec['grid']['kind']
    rec.cls(f"sc={sc}", f"widths={kind}", f"laplace={spec['laplace']}",
            f"case={case}")
    if kind != 'uniform':
        rec.nt([sc, list(shape), spec['grid']['seed']])
    rec.note({'sc': sc, 'shape': list(shape), 'coarse': list(cshape),
              'fine_edges': int(ne), 'coarse_edges': int(nce)})


SUBS = {'transfer': case_transfer}


def run(ctx):
    ctx.regression(SUBS)
    for sc in range(7):
        ctx.explore('transfer', spec_strategy(sc), case_transfer,
                    ctx.n(8, 25), salt=sc)

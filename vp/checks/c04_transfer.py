"""C04 - restriction = prolongation^T; coarse model conserves volumes."""
import numpy as np
import scipy.sparse as sp
from hypothesis import strategies as st

from vp import gen, refop
from vp.framework import Violation

RULE = ("transfer: for each of the 7 coarsening patterns (0 = full, 1..6 "
        "semi) a fine grid is generated whose coarsened directions have an "
        "even number >=4 of cells (2..7 otherwise), with uniform/stretched/"
        "random widths, real or complex fields, any anisotropy case, with or "
        "without mu_r/epsilon_r (genuinely complex eta).  The FULL fine edge "
        "basis goes through solver.restriction -> matrix R and the FULL "
        "coarse edge basis through solver.prolongation -> matrix P; oracles: "
        "R[int_c,int_f] == P[int_f,int_c]^T, R[int_c,bnd_f] == 0, P == "
        "checker's reference (piecewise constant along / linear across, from "
        "node coordinates), P >= 0, interior rows sum to 1, prolongation adds "
        "and leaves boundary edges bit-identical (random fields of amplitude "
        "1e-200..1e100; coarse field optionally the Field/BaseMesh object "
        "returned by restriction), coarse nodes = every second node, coarse "
        "eta/zeta = sum of children, coarse field zero and of source dtype, "
        "core.restrict == its py_func, all inputs (model arrays, source, "
        "residual, coarse field) bit-identical after the calls; optionally a "
        "second grid of the SAME shape but other widths is sent through "
        "restriction/prolongation in between (order A,B,A) and compared with "
        "its own reference.  levels: every (pattern, anisotropy case) pair x "
        "larger shapes (coarsened 4..32, others 2..33, optionally UTM-scale "
        "origin): up to 3 successive restrictions feeding emg3d's own coarse "
        "model / coarse Field back in (pattern per level = the directions "
        "that can still be halved), per level the same node/model/field "
        "oracles through the sparse reference, model also against the block "
        "sums of the level-0 arrays; then prolongation back down level by "
        "level through emg3d's coarse Fields.  Non-trivial = non-uniform "
        "widths; distinct by (pattern, shape, seed).")
ASSUMPTIONS = [
    "reference prolongation built from node coordinates with 1-D linear "
    "interpolation / piecewise-constant Kronecker factors (vp code, no "
    "emg3d import)",
    "tolerance 1e4 eps relative to row scale (transfer); in 'levels' "
    "multiplied by 1 + max_i max(|x_i|,|x_i+1|)/h_i, the conditioning of "
    "an interpolation weight computed from absolute coordinates (large "
    "stretched grids, UTM origins; emg3d re-derives the coarse nodes by "
    "cumsum, worst case ~4 n eps kappa for n <= 33 cells; quiet on the "
    "unchanged tree with the tolerance divided by 30 (transfer) / 10 "
    "(levels))",
    "R[int_c, bnd_f] == 0 is demanded because prolongation never touches "
    "boundary edges (zero rows of P) and R acts as P^T on interior edges; "
    "rows of R for coarse BOUNDARY edges are not constrained",
    "a pattern is applied only to directions with an even number >= 4 of "
    "cells (what solver._current_sc_dir selects); the per-level pattern is "
    "computed by the checker, np.int64 pattern codes are accepted input",
    "propagation of the frequency to the coarse fields is not in the "
    "property text and not asserted",
]
SHARDS = {'quick': 1, 'thorough': 16}
C_EPS = 1e4*np.finfo(float).eps
PARAMS = ('eta_x', 'eta_y', 'eta_z', 'zeta')

# New generator branches (set to False to silence one of them).
ENABLE_EPSR = True        # genuinely complex eta (epsilon_r)
ENABLE_AMPLITUDE = True   # field amplitudes 1e-200 .. 1e100
ENABLE_SECOND_GRID = True  # A,B,A call order with a same-shape grid
ENABLE_PROVENANCE = True  # coarse Field object returned by restriction
ENABLE_NPINT = True       # pattern code as numpy integer
ENABLE_UTM = True         # UTM-scale origin (levels)

_AMP = st.one_of(st.just(0.0), st.floats(-30.0, 0.0),
                 st.floats(-200.0, 100.0))


def _opt(flag, strategy, default):
    return strategy if flag else st.just(default)


def spec_strategy(sc):
    coarse = [4, 6, 8, 10]
    other = [2, 3, 4, 5, 6, 7]
    cx = sc not in (1, 5, 6)
    cy = sc not in (2, 4, 6)
    cz = sc not in (3, 4, 5)
    counts = [coarse if c else other for c in (cx, cy, cz)]
    return st.fixed_dictionaries({
        'sc': st.just(sc),
        'grid': gen.grid_spec(counts),
        'model': gen.model_spec(epsr=ENABLE_EPSR),
        'laplace': st.booleans(),
        'fseed': gen.SEED,
        'pyfunc': st.integers(0, 5).map(lambda k: k == 0),
        'lgamp': _opt(ENABLE_AMPLITUDE, _AMP, 0.0),
        'second': _opt(ENABLE_SECOND_GRID, st.one_of(st.none(), gen.SEED),
                       None),
        'prov': _opt(ENABLE_PROVENANCE, st.booleans(), False),
        'npint': _opt(ENABLE_NPINT, st.booleans(), False),
    }).filter(lambda s: _nedges(s['grid']['n']) <= 2200)


def _nedges(n):
    nx, ny, nz = n
    return nx*(ny+1)*(nz+1) + (nx+1)*ny*(nz+1) + (nx+1)*(ny+1)*nz


def _lin1d(xf, xc, coarsen):
    """fine nodes x coarse nodes linear interpolation matrix."""
    if not coarsen:
        return sp.identity(len(xf), format='csr')
    M = sp.lil_matrix((len(xf), len(xc)))
    for i, x in enumerate(xf):
        if i % 2 == 0:
            M[i, i//2] = 1.0
        else:
            k = i//2
            w = (x - xc[k])/(xc[k+1]-xc[k])
            M[i, k] = 1-w
            M[i, k+1] = w
    return M.tocsr()


def _const1d(n, coarsen):
    """fine cells x coarse cells piecewise-constant matrix."""
    if not coarsen:
        return sp.identity(n, format='csr')
    M = sp.lil_matrix((n, n//2))
    for i in range(n):
        M[i, i//2] = 1.0
    return M.tocsr()


def reference_P(nodes, shape, coars):
    """Reference prolongation (all fine edges x all coarse edges), with rows
    of tangential boundary fine edges zeroed."""
    cn = [x[::2] if c else x for x, c in zip(nodes, coars)]
    L = [_lin1d(x, xc, c) for x, xc, c in zip(nodes, cn, coars)]
    K = [_const1d(n, c) for n, c in zip(shape, coars)]
    Px = sp.kron(L[2], sp.kron(L[1], K[0]))
    Py = sp.kron(L[2], sp.kron(K[1], L[0]))
    Pz = sp.kron(K[2], sp.kron(L[1], L[0]))
    P = sp.block_diag([Px, Py, Pz]).tocsr()
    m = refop.interior_mask(*shape)
    return sp.diags(m.astype(float)) @ P


def _coars_of(sc):
    return (sc not in (1, 5, 6), sc not in (2, 4, 6), sc not in (3, 4, 5))


_SC_OF = {(True, True, True): 0, (False, True, True): 1,
          (True, False, True): 2, (True, True, False): 3,
          (True, False, False): 4, (False, True, False): 5,
          (False, False, True): 6}


def _children_sum(p, coars):
    rx, ry, rz = (2 if c else 1 for c in coars)
    return sum(p[i::rx, j::ry, k::rz] for i in range(rx)
               for j in range(ry) for k in range(rz))


def _block_sum(p, f):
    """Sum over blocks of f[0] x f[1] x f[2] cells."""
    return sum(p[i::f[0], j::f[1], k::f[2]] for i in range(f[0])
               for j in range(f[1]) for k in range(f[2]))


def _snapshot(m):
    return {nm: np.array(getattr(m, nm)) for nm in PARAMS}


def _check_unchanged(m, snap, where):
    for nm in PARAMS:
        now = getattr(m, nm)
        if now.shape != snap[nm].shape or now.dtype != snap[nm].dtype or \
                not np.array_equal(now, snap[nm]):
            raise Violation(f"input_modified:model:{nm}",
                            f"{nm} of the input model changed during "
                            f"restriction ({where})")


def _check_field_unchanged(f, before, name, where):
    if not np.array_equal(f.field, before):
        raise Violation(f"input_modified:{name}",
                        f"{name} changed during {where}")


def _check_coarse_model(cm, snap, coars, sig, what):
    """cm's parameters == sum of the children in snap (1e-13 rel)."""
    for nm in PARAMS:
        ref = _children_sum(snap[nm], coars)
        got = getattr(cm, nm)
        if got.shape != ref.shape or np.any(
                np.abs(got-ref) > 1e-13*np.abs(ref)):
            raise Violation(f"coarse_model:{nm}:{sig}",
                            f"coarse {nm} is not the sum of its children "
                            f"({what})")
        if abs(got.sum()-snap[nm].sum()) > 1e-12*np.abs(snap[nm]).sum():
            raise Violation(f"coarse_model_total:{nm}:{sig}",
                            f"total not conserved ({what})")


def _check_coarse_fields(csf, cef, dt, zero_res, where=''):
    for nm, f in (('csfield', csf), ('cefield', cef)):
        if f.field.dtype != dt:
            raise Violation(f"coarse_dtype:{nm}",
                            f"{f.field.dtype} vs {dt} {where}")
        if (zero_res or nm == 'cefield') and np.any(f.field != 0):
            raise Violation(f"coarse_nonzero:{nm}",
                            f"coarse field not zero {where}")


def _fill(field, seed, salt, amp, pec):
    """Random values into an EXISTING Field object (keeps its provenance)."""
    rng = gen.rng_of(seed, salt)
    v = rng.standard_normal(field.field.size)
    if np.iscomplexobj(field.field):
        v = v + 1j*rng.standard_normal(field.field.size)
    field.field[:] = v*amp
    if pec:
        gen.pec_zero(field.fx, field.fy, field.fz)


def _amp_class(lg):
    if lg == 0:
        return 'amp=1'
    if lg < -30:
        return 'amp<1e-30'
    if lg > 30:
        return 'amp>1e30'
    return 'amp=1e-30..1e30'


def case_transfer(spec, rec):
    import emg3d
    from emg3d import solver, core
    sc = spec['sc']
    sca = np.int64(sc) if spec.get('npint', False) else sc
    h, origin = gen.build_widths(spec['grid'])
    grid = emg3d.TensorMesh(h, origin=origin)
    shape = tuple(int(n) for n in grid.shape_cells)
    coars = _coars_of(sc)
    freq = -1.3 if spec['laplace'] else 1.3
    amp = float(10.0**spec.get('lgamp', 0.0))
    model, _ = gen.build_model(grid, spec['model'], 1.0)
    case = spec['model']['case']
    sfield = emg3d.Field(grid, frequency=freq)
    dt = sfield.field.dtype
    vm = emg3d.models.VolumeModel(model, sfield)
    snap = _snapshot(vm)
    ne = grid.n_edges

    zero_res = emg3d.Field(grid, frequency=freq)
    cmodel, csf0, cef0 = solver.restriction(vm, sfield, zero_res, sca)
    cg = cmodel.grid
    cshape = tuple(int(n) for n in cg.shape_cells)
    exp_cshape = tuple(n//2 if c else n for n, c in zip(shape, coars))
    if cshape != exp_cshape:
        raise Violation(f"coarse_shape:sc{sc}",
                        f"{shape} -> {cshape}, expected {exp_cshape}")
    nodes = [grid.nodes_x, grid.nodes_y, grid.nodes_z]
    cnodes = [cg.nodes_x, cg.nodes_y, cg.nodes_z]
    for d in range(3):
        ref = nodes[d][::2] if coars[d] else nodes[d]
        ext = nodes[d][-1]-nodes[d][0]
        if ref.shape != cnodes[d].shape or np.any(
                np.abs(ref-cnodes[d]) > 1e-12*ext):
            raise Violation(f"coarse_nodes:sc{sc}:dir{d}",
                            "coarse nodes are not every second fine node")
    # coarse fields
    _check_coarse_fields(csf0, cef0, dt, True)

    # coarse model = sum of children (of the values BEFORE the call)
    _check_unchanged(vm, snap, 'first call')
    _check_coarse_model(cmodel, snap, coars, f"sc{sc}", f"case {case}")

    # --- R: full fine basis -------------------------------------------
    nce = csf0.field.size
    R = np.zeros((nce, ne))
    r = emg3d.Field(grid, frequency=freq)
    for j in range(ne):
        r.field[j] = 1.0
        _, csf, _ = solver.restriction(vm, sfield, r, sca)
        col = csf.field
        if np.iscomplexobj(col) and np.any(col.imag != 0):
            raise Violation("restriction_not_real_linear",
                            "real basis residual gives complex restriction")
        R[:, j] = col.real
        r.field[j] = 0.0
    _check_unchanged(vm, snap, 'basis loop')
    if np.any(sfield.field != 0):
        raise Violation("input_modified:sfield",
                        "source field changed during restriction")
    # --- P: full coarse basis ------------------------------------------
    cgT = emg3d.TensorMesh(cg.h, cg.origin)
    P = np.zeros((ne, nce))
    c = emg3d.Field(cgT, frequency=freq)
    for J in range(nce):
        c.field[J] = 1.0
        e = emg3d.Field(grid, frequency=freq)
        solver.prolongation(e, c, sca)
        P[:, J] = e.field.real
        c.field[J] = 0.0
    mf = refop.interior_mask(*shape)
    mc = refop.interior_mask(*cshape)
    Pref = reference_P(nodes, shape, coars).toarray()

    D = np.abs(P - Pref)
    if np.any(D > C_EPS):
        i, J = np.unravel_index(np.argmax(D), D.shape)
        comp = 'xyz'[int(i >= grid.n_edges_x) +
                     int(i >= grid.n_edges_x+grid.n_edges_y)]
        bnd = 'interior' if mf[i] else 'boundary'
        cb = 'interior' if mc[J] else 'boundary'
        raise Violation(f"prolongation_mismatch:sc{sc}:e{comp}:{bnd}",
                        f"P[{i},{J}]={P[i, J]:.6g} ref {Pref[i, J]:.6g}; "
                        f"shape {shape}; column of a coarse {cb} edge")
    if P.min() < -C_EPS:
        raise Violation(f"prolongation_negative:sc{sc}", f"min {P.min()}")
    rs = P[mf].sum(axis=1)
    if np.any(np.abs(rs-1) > C_EPS):
        raise Violation(f"prolongation_rowsum:sc{sc}",
                        f"row sums in [{rs.min()}, {rs.max()}]")
    Dt = np.abs(R[np.ix_(mc, mf)] - P[np.ix_(mf, mc)].T)
    if Dt.size and np.any(Dt > C_EPS):
        I, j = np.unravel_index(np.argmax(Dt), Dt.shape)
        ci = np.flatnonzero(mc)[I]
        comp = 'xyz'[int(ci >= cgT.n_edges_x) +
                     int(ci >= cgT.n_edges_x+cgT.n_edges_y)]
        raise Violation(f"restriction_not_transpose:sc{sc}:e{comp}",
                        f"max |R - P^T| = {Dt.max():.3e}; shape {shape}")
    # P never touches boundary fine edges -> P^T has zero columns there
    Db = np.abs(R[np.ix_(mc, ~mf)])
    if Db.size and np.any(Db > C_EPS):
        I, j = np.unravel_index(np.argmax(Db), Db.shape)
        raise Violation(f"restriction_uses_boundary:sc{sc}",
                        f"interior coarse edge {np.flatnonzero(mc)[I]} takes "
                        f"{Db.max():.3e} x residual of boundary fine edge "
                        f"{np.flatnonzero(~mf)[j]}; shape {shape}")

    # --- additivity / boundary untouched / complex linearity -------------
    e0 = gen.random_field(grid, spec['fseed'], freq, salt=21, pec=False,
                          scale=amp)
    cc = gen.random_field(cgT, spec['fseed'], freq, salt=22, pec=False,
                          scale=amp)
    if spec.get('prov', False):
        # the coarse Field object (BaseMesh grid, dtype= construction) that
        # restriction returned, as multigrid hands it to prolongation
        rec.cls('coarse_field=from_restriction')
        cef0.field[:] = cc.field
        cc = cef0
    before = e0.field.copy()
    ccb = cc.field.copy()
    solver.prolongation(e0, cc, sca)
    _check_field_unchanged(cc, ccb, 'cefield', 'prolongation')
    inc = e0.field - before
    ref = Pref @ ccb
    scl = np.abs(Pref) @ np.abs(ccb) + np.abs(before)
    if np.any(np.abs(inc-ref) > C_EPS*(scl+scl.max()*1e-3)):
        raise Violation(f"prolongation_not_additive:sc{sc}",
                        "prolongation(e, c) != e + P c for random e, c "
                        f"(amplitude 1e{spec.get('lgamp', 0.0):.0f})")
    if np.any(e0.field[~mf] != before[~mf]):
        raise Violation(f"prolongation_touches_boundary:sc{sc}",
                        "tangential boundary edges modified")
    rr = gen.random_field(grid, spec['fseed'], freq, salt=23, pec=False,
                          scale=amp)
    rrb = rr.field.copy()
    _, csf, _ = solver.restriction(vm, sfield, rr, sca)
    _check_field_unchanged(rr, rrb, 'residual', 'restriction')
    ref = R @ rr.field
    scl = np.abs(R) @ np.abs(rr.field)
    if np.any(np.abs(csf.field-ref) > C_EPS*(scl+scl.max()*1e-3)):
        raise Violation(f"restriction_not_linear:sc{sc}",
                        "restriction(random) != R @ random "
                        f"(amplitude 1e{spec.get('lgamp', 0.0):.0f})")

    # --- compiled vs python source ---------------------------------------
    if spec['pyfunc']:
        if not (hasattr(solver, '_get_restriction_weights') and
                hasattr(core.restrict, 'py_func')):
            rec.cls('pyfunc_unavailable')   # private API gone: not decided
        else:
            rec.cls('pyfunc')
            wx, wy, wz = solver._get_restriction_weights(vm.grid, cg, sc)
            a = emg3d.Field(cgT, frequency=freq)
            b = emg3d.Field(cgT, frequency=freq)
            core.restrict(a.fx, a.fy, a.fz, rr.fx, rr.fy, rr.fz,
                          wx, wy, wz, sc)
            core.restrict.py_func(b.fx, b.fy, b.fz, rr.fx, rr.fy, rr.fz,
                                  wx, wy, wz, sc)
            if np.any(np.abs(a.field-b.field) > C_EPS*(scl+scl.max()*1e-3)):
                raise Violation(f"restrict_jit_vs_pyfunc:sc{sc}",
                                f"max {np.abs(a.field-b.field).max():.3e}")

    # --- second grid, same shape, other widths: order A, B, A -------------
    second = spec.get('second', None)
    if second is not None:
        rec.cls('second_grid')
        _second_grid(spec, rec, second, sc, sca, freq, amp, coars, shape,
                     cshape, mf, mc)
        # ... and A again
        e1 = gen.random_field(grid, spec['fseed'], freq, salt=27, pec=False,
                              scale=amp)
        c1 = gen.random_field(cgT, spec['fseed'], freq, salt=28, pec=False,
                              scale=amp)
        before = e1.field.copy()
        solver.prolongation(e1, c1, sca)
        ref = Pref @ c1.field
        scl = np.abs(Pref) @ np.abs(c1.field) + np.abs(before)
        if np.any(np.abs(e1.field-before-ref) > C_EPS*(scl+scl.max()*1e-3)):
            raise Violation(f"prolongation_depends_on_history:sc{sc}",
                            "prolongation on grid A differs after a call "
                            "with a same-shape grid B")
        r1 = gen.random_field(grid, spec['fseed'], freq, salt=29, pec=False,
                              scale=amp)
        cm1, csf, _ = solver.restriction(vm, sfield, r1, sca)
        ref = R @ r1.field
        scl = np.abs(R) @ np.abs(r1.field)
        if np.any(np.abs(csf.field-ref) > C_EPS*(scl+scl.max()*1e-3)):
            raise Violation(f"restriction_depends_on_history:sc{sc}",
                            "restriction on grid A differs after a call "
                            "with a same-shape grid B")
        _check_coarse_model(cm1, snap, coars, f"sc{sc}",
                            f"case {case}, after grid B")
    _check_unchanged(vm, snap, 'end of case')

    kind = spec['grid']['kind']
    rec.cls(f"sc={sc}", f"widths={kind}", f"laplace={spec['laplace']}",
            f"case={case}", f"epsr={spec['model'].get('epsr', False)}",
            _amp_class(spec.get('lgamp', 0.0)),
            f"npint={spec.get('npint', False)}")
    if kind != 'uniform':
        rec.nt([sc, list(shape), spec['grid']['seed']])
    rec.note({'sc': sc, 'shape': list(shape), 'coarse': list(cshape),
              'fine_edges': int(ne), 'coarse_edges': int(nce)})


def _second_grid(spec, rec, second, sc, sca, freq, amp, coars, shape, cshape,
                 mf, mc):
    """Grid B: same shape as A, random widths from another seed; one
    restriction and one prolongation compared with B's own reference."""
    import emg3d
    from emg3d import solver
    gs = dict(spec['grid'], seed=second, kind='random')
    h2, origin2 = gen.build_widths(gs)
    gridB = emg3d.TensorMesh(h2, origin=origin2)
    nodesB = [gridB.nodes_x, gridB.nodes_y, gridB.nodes_z]
    modelB, _ = gen.build_model(gridB, dict(spec['model'], seed=second), 1.0)
    sfB = emg3d.Field(gridB, frequency=freq)
    vmB = emg3d.models.VolumeModel(modelB, sfB)
    snapB = _snapshot(vmB)
    PB = reference_P(nodesB, shape, coars).tocsr()
    rB = gen.random_field(gridB, second, freq, salt=24, pec=False, scale=amp)
    cmB, csfB, cefB = solver.restriction(vmB, sfB, rB, sca)
    _check_coarse_model(cmB, snapB, coars, f"sc{sc}", "grid B")
    ref = PB.T @ rB.field
    scl = np.abs(PB).T @ np.abs(rB.field)
    bad = np.abs(csfB.field-ref) > C_EPS*(scl+scl.max()*1e-3)
    if np.any(bad[mc]):
        raise Violation(f"restriction_depends_on_history:sc{sc}",
                        "restriction on a same-shape grid B (other widths) "
                        "is not the transpose of B's reference prolongation")
    _fill(cefB, second, 25, amp, False)
    eB = gen.random_field(gridB, second, freq, salt=26, pec=False, scale=amp)
    before = eB.field.copy()
    solver.prolongation(eB, cefB, sca)
    ref = PB @ cefB.field
    scl = np.abs(PB) @ np.abs(cefB.field) + np.abs(before)
    if np.any(np.abs(eB.field-before-ref) > C_EPS*(scl+scl.max()*1e-3)):
        raise Violation(f"prolongation_depends_on_history:sc{sc}",
                        "prolongation on a same-shape grid B (other widths) "
                        "differs from B's reference")


# ======================================================================
# levels: successive restrictions / prolongations through emg3d's own
# coarse objects, larger shapes, every (pattern, case) pair
# ======================================================================
def levels_strategy(sc, case):
    even = [4, 6, 8, 10, 12, 16, 20, 24, 32]
    other = [2, 3, 4, 5, 6, 7, 8, 9, 11, 12, 16, 17, 24, 33]
    counts = [even if c else other for c in _coars_of(sc)]
    return st.fixed_dictionaries({
        'sc': st.just(sc),
        'grid': gen.grid_spec(counts),
        'model': gen.model_spec(cases=[case], epsr=ENABLE_EPSR),
        'laplace': st.booleans(),
        'fseed': gen.SEED,
        'levels': st.integers(1, 3),
        'lgamp': _opt(ENABLE_AMPLITUDE, _AMP, 0.0),
        'pec': st.booleans(),
        'utm': _opt(ENABLE_UTM, st.booleans(), False),
        'npint': _opt(ENABLE_NPINT, st.booleans(), False),
    }).filter(lambda s: int(np.prod(s['grid']['n'])) <= MAX_CELLS)


MAX_CELLS = 9000


def _kappa(nodes):
    """Conditioning of interpolation weights computed from coordinates."""
    k = 0.0
    for x in nodes:
        a = np.maximum(np.abs(x[:-1]), np.abs(x[1:]))
        k = max(k, float(np.max(a/np.diff(x))))
    return k


def case_levels(spec, rec):
    import emg3d
    from emg3d import solver
    sc = spec['sc']
    h, origin = gen.build_widths(spec['grid'])
    if spec.get('utm', False):
        origin = origin + np.array([5e5, 6e6, 0.0])
    grid = emg3d.TensorMesh(h, origin=origin)
    shape = tuple(int(n) for n in grid.shape_cells)
    freq = -1.3 if spec['laplace'] else 1.3
    amp = float(10.0**spec.get('lgamp', 0.0))
    pec = spec['pec']
    case = spec['model']['case']
    model, _ = gen.build_model(grid, spec['model'], 1.0)
    sfield = emg3d.Field(grid, frequency=freq)
    dt = sfield.field.dtype
    vm = emg3d.models.VolumeModel(model, sfield)
    snap0 = _snapshot(vm)
    nodes = [np.array(grid.nodes_x), np.array(grid.nodes_y),
             np.array(grid.nodes_z)]
    tol = C_EPS*(1.0 + _kappa(nodes))

    res = gen.random_field(grid, spec['fseed'], freq, salt=31, pec=pec,
                           scale=amp)
    cur_m, cur_sf, cur_res = vm, sfield, res
    cur_nodes, cur_shape = nodes, shape
    fac = [1, 1, 1]
    stack = []      # per level: (sc_l, Pref, interior mask fine, target)
    target = emg3d.Field(grid, frequency=freq)
    patterns = []
    for lev in range(1, spec['levels']+1):
        coars = tuple(bool(c and n % 2 == 0 and n >= 4)
                      for c, n in zip(_coars_of(sc), cur_shape))
        if not any(coars):
            break
        sc_l = _SC_OF[coars]
        patterns.append(sc_l)
        arg = np.int64(sc_l) if spec.get('npint', False) else sc_l
        where = f"level {lev}, pattern {sc_l}, shape {cur_shape}"
        snap_in = _snapshot(cur_m)
        res_in = cur_res.field.copy()
        sf_in = cur_sf.field.copy()
        cm, csf, cef = solver.restriction(cur_m, cur_sf, cur_res, arg)
        _check_unchanged(cur_m, snap_in, where)
        _check_field_unchanged(cur_res, res_in, 'residual',
                               'restriction, ' + where)
        _check_field_unchanged(cur_sf, sf_in, 'sfield',
                               'restriction, ' + where)
        # grid
        cshape = tuple(int(n) for n in cm.grid.shape_cells)
        exp = tuple(n//2 if c else n for n, c in zip(cur_shape, coars))
        if cshape != exp:
            raise Violation(f"coarse_shape:sc{sc_l}",
                            f"{cur_shape} -> {cshape}, expected {exp} "
                            f"({where})")
        fac = [f*2 if c else f for f, c in zip(fac, coars)]
        new_nodes = [x[::2] if c else x for x, c in zip(cur_nodes, coars)]
        got_nodes = [cm.grid.nodes_x, cm.grid.nodes_y, cm.grid.nodes_z]
        for d in range(3):
            ext = max(nodes[d][-1]-nodes[d][0], np.abs(nodes[d]).max())
            if got_nodes[d].shape != new_nodes[d].shape or np.any(
                    np.abs(got_nodes[d]-new_nodes[d]) > 1e-12*ext):
                raise Violation(f"coarse_nodes:sc{sc_l}:dir{d}",
                                f"coarse nodes are not every {fac[d]}-th "
                                f"node of the finest grid ({where})")
        # fields
        _check_coarse_fields(csf, cef, dt, False, where)
        # model: children of the level above and blocks of level 0
        _check_coarse_model(cm, snap_in, coars, f"sc{sc_l}",
                            f"case {case}, {where}")
        for nm in PARAMS:
            ref = _block_sum(snap0[nm], fac)
            got = getattr(cm, nm)
            if got.shape != ref.shape or np.any(
                    np.abs(got-ref) > 1e-12*np.abs(ref)):
                raise Violation(f"coarse_model_levels:{nm}",
                                f"{nm} on level {lev} is not the sum of the "
                                f"{fac} finest-grid cells (case {case}, "
                                f"patterns {patterns})")
        # restricted residual == Pref^T residual on interior coarse edges
        Pref = reference_P(cur_nodes, cur_shape, coars).tocsr()
        mc = refop.interior_mask(*cshape)
        ref = Pref.T @ res_in
        scl = np.abs(Pref).T @ np.abs(res_in)
        bad = np.abs(csf.field-ref) > tol*(scl+scl.max()*1e-3)
        if np.any(bad[mc]):
            i = int(np.flatnonzero(bad & mc)[0])
            raise Violation(f"restriction_not_transpose:sc{sc_l}:levels",
                            f"coarse edge {i}: {csf.field[i]} vs P^T r = "
                            f"{ref[i]} ({where}, amplitude "
                            f"1e{spec.get('lgamp', 0.0):.0f})")
        stack.append((sc_l, arg, Pref, refop.interior_mask(*cur_shape),
                      target, where))
        target = cef
        cur_m, cur_sf, cur_res = cm, csf, csf
        cur_nodes, cur_shape = new_nodes, cshape

    nlev = len(stack)
    # --- back down: prolongation through emg3d's own coarse Fields --------
    if nlev:
        c = target          # cefield returned by the deepest restriction
        _fill(c, spec['fseed'], 33, amp, pec)
        for k in range(nlev-1, -1, -1):
            sc_l, arg, Pref, mf, tgt, where = stack[k]
            _fill(tgt, spec['fseed'], 40+k, amp, pec)
            before = tgt.field.copy()
            c_in = c.field.copy()
            solver.prolongation(tgt, c, arg)
            _check_field_unchanged(c, c_in, 'cefield',
                                   'prolongation, ' + where)
            ref = Pref @ c_in
            scl = np.abs(Pref) @ np.abs(c_in) + np.abs(before)
            if np.any(np.abs(tgt.field-before-ref) >
                      tol*(scl+scl.max()*1e-3)):
                raise Violation(f"prolongation_not_additive:sc{sc_l}:levels",
                                "prolongation(e, c) != e + P c "
                                f"({where}, amplitude "
                                f"1e{spec.get('lgamp', 0.0):.0f})")
            if np.any(tgt.field[~mf] != before[~mf]):
                raise Violation(f"prolongation_touches_boundary:sc{sc_l}",
                                f"tangential boundary edges modified "
                                f"({where})")
            c = tgt
    _check_unchanged(vm, snap0, 'end of case')

    kind = spec['grid']['kind']
    rec.cls(f"sc={sc}", f"case={case}", f"levels={nlev}",
            f"mixed_patterns={len(set(patterns)) > 1}",
            f"widths={kind}", f"laplace={spec['laplace']}",
            f"epsr={spec['model'].get('epsr', False)}",
            _amp_class(spec.get('lgamp', 0.0)), f"pec={pec}",
            f"utm={spec.get('utm', False)}",
            f"npint={spec.get('npint', False)}",
            f"maxn>=12={max(shape) >= 12}")
    if kind != 'uniform' and nlev:
        rec.nt([sc, case, list(shape), spec['grid']['seed']])
    rec.note({'sc': sc, 'shape': list(shape), 'patterns': patterns,
              'coarsest': list(cur_shape), 'tol': tol})


SUBS = {'transfer': case_transfer, 'levels': case_levels}


def run(ctx):
    ctx.regression(SUBS)
    for sc in range(7):
        ctx.explore('transfer', spec_strategy(sc), case_transfer,
                    ctx.n(8, 25), salt=sc)
    for sc in range(7):
        for ic, case in enumerate(gen.CASES):
            ctx.explore('levels', levels_strategy(sc, case), case_levels,
                        ctx.n(6, 20), salt=10*sc+ic)

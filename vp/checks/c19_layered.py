"""C19 - layered (1D) mode agrees with the 1D reference modeller (empymod) on
laterally invariant media; extraction weights; layer-summed FD gradient."""
import contextlib
import io
import warnings

import numpy as np
from hypothesis import strategies as st

from vp import gen
from vp.framework import Inconclusive, Violation

RULE = ("forward: stretched/random/uniform grid 5..9 x 4..7 x 5..9, laterally "
        "invariant isotropic or VTI model (six mappings, random layer values "
        "over <=2 decades around the conductivity that gives the drawn "
        "induction number, or round 'palette' values with repeated layers, "
        "optional air layer / mu_r / epsilon_r), 1-3 sources (electric / "
        "magnetic point, electric / magnetic dipole in the three documented "
        "coordinate formats, default or random strength and length), 1-4 "
        "electric / magnetic point receivers (absolute or source-relative), "
        "1-3 frequencies, observed data none / full / NaN gaps / all NaN; the "
        "simulation is run once per extraction method (midpoint, source, "
        "receiver, prism, cylinder; each with its own ellipse radius / factor "
        "/ minor / check_foci and merge flag) and every entry is compared "
        "with the checker's own empymod.bipole call (centre, angles, moment "
        "= strength*length, layers passed top-down).  Non-trivial = at least "
        "two distinct layers, at least one compared entry with a response "
        "above underflow; distinct by (grid shape, seeds).  Added in the "
        "audit round: grids with 1-2 cells in x/y (one case in seven a single "
        "column nx=ny=1) and 1-3 layers (full space, one interface); missing "
        "observations written as nan+nanj / nan+xj / x+nanj / inf / x-infj; "
        "the simulation reaches layered mode fresh, through the `layered` "
        "setter of a 3D simulation, through from_dict(to_dict()), or is "
        "computed twice; 'method' may be left to its default; after "
        "construction Simulation.layered_opts is compared with the given "
        "options and the documented defaults (cylinder, factor 1.2, minor "
        "0.8, radius = skin depth of the lowest frequency in the lowest "
        "layer).  extract: Model.extract_1d on laterally varying models of "
        "all four anisotropy cases: imat = area weights of the checker's own "
        "evaluation of the documented ellipse (cylinder) or its bounding box "
        "(prism), extracted values = an imat-weighted mean of the selected "
        "cells, width of a midpoint model = selected cell; ellipse: "
        "maps.ellipse_indices on regular and irregular coordinates equals "
        "the documented ellipse (a = max(f c, c+r), b = max(m a, r[, "
        "sqrt(a^2-c^2)])) at every coordinate outside a 1e-9 rounding band "
        "around its boundary; gradient: layer sums of Simulation.gradient in "
        "layered mode against central differences of the misfit of fresh "
        "simulations (also nz = 2, 3, single columns, all-NaN data).")
ASSUMPTIONS = [
    "empymod.bipole (the 1D reference modeller) is the trusted base; both "
    "sides call the same empymod, the checker with arguments derived from the "
    "generated description (absolute position, azimuth, elevation, unit "
    "response via strength=0 times moment = strength*length, top-down layer "
    "order), never from emg3d objects; finite dipoles are handed over in the "
    "same coordinate format (empymod rounds the centre of a 6-coordinate "
    "bipole to mm, not that of a 5-coordinate dipole)",
    "sources/receivers lie inside the model grid and keep a distance of "
    ">=1e-3 cell heights from layer interfaces (the 1D response is "
    "discontinuous in the layer index there); gridding='same' (automatic "
    "gridding is documented to have no effect in layered mode and is C16's "
    "business)",
    "forward tolerance: |got-ref| <= 1e-10|ref|, or <= 1e-11 of the norm of "
    "the full 3x3 orientation tensor of that source-receiver pair (coupling "
    "nulls), or <= 20 x the measured numerical noise of the reference (its "
    "change under 1e-13 relative perturbations of the layers; strongly "
    "attenuated responses are cancelling filter sums)",
    "entries without a finite observation are NaN on this tree; the "
    "statement does not demand that, so computed values there are only "
    "recorded (class entries_without_observation_computed), while a "
    "non-finite value where the observation is finite is a violation",
    "ellipse membership: rounding band |Q-1| <= 1e-9 (1 + r^2 (1/a^2+1/b^2)) "
    "+ 1e3 x the effect of the rounding of the coordinate differences "
    "(Q = (xi/a)^2+(eta/b)^2, r = distance from the centre); coordinates "
    "inside the band are not compared",
    "extract_1d documents 'volume-averages' without naming the mean: the "
    "imat-weighted arithmetic, geometric or harmonic mean of the stored "
    "values (for log mappings also of the values on the linear scale) is "
    "accepted, the same one in all layers, to 1e-10 of the largest selected "
    "value of the layer",
    "with exactly one interface empymod cannot infer the direction of the "
    "z-axis from `depth`; the reference then adds a second interface above "
    "the grid between two copies of the top layer",
    "negative (Laplace) frequencies are not generated: neither Survey nor "
    "the layered mode documents them (only Field / get_source_field do)",
    "gradient: emg3d uses a forward difference with 1e-4 relative step in "
    "conductivity, so agreement with the central difference is first order; "
    "tolerance 1e-2*max_k|FD_k| per component (+1e-9|phi|/h rounding floor); "
    "cases where the checker's own estimate of the truncation term "
    "(|phi''| dp/2) exceeds a quarter of that tolerance, or whose estimate of "
    "the numerical noise of the misfit (six 1e-11 perturbations) divided by "
    "the implementation's step exceeds a tenth of it, or whose responses "
    "underflow (<1e-100), are inconclusive",
]
SHARDS = {'quick': 1, 'thorough': 16}

METHODS = ['midpoint', 'source', 'receiver', 'prism', 'cylinder']
SRC_TYPES = ['ep', 'mp', 'ed5', 'ed6', 'md5', 'md6', 'ed6', 'ed5', 'mp', 'ep']
PALETTE = [0.01, 0.1, 1.0, 10.0, 100.0]


# ------------------------------------------------------------------ helpers
@contextlib.contextmanager
def quiet():
    with warnings.catch_warnings():
        warnings.simplefilter('ignore')
        with contextlib.redirect_stdout(io.StringIO()):
            yield


def direction(az, el):
    a, e = np.deg2rad(az), np.deg2rad(el)
    return np.array([np.cos(e)*np.cos(a), np.cos(e)*np.sin(a), np.sin(e)])


def draw_angles(rng, kind):
    if kind == 'cardinal':
        az = float(rng.choice([0.0, 90.0, -90.0, 180.0, 45.0]))
        el = float(rng.choice([0.0, 0.0, 90.0, -90.0, 30.0]))
    else:
        az = float(rng.uniform(-180, 180))
        el = float(rng.uniform(-90, 90))
    return az, el


def build_layers(ls, nz, bg):
    """Layer conductivities etc. (index 0 = deepest layer, as in emg3d)."""
    rng = gen.rng_of(ls['seed'], 21)
    if ls['mode'] == 'palette':
        # round values, repeated layers are likely (merge has work to do)
        sh = np.array([PALETTE[i] for i in rng.integers(0, len(PALETTE), nz)])
        rep = rng.random(nz) < 0.35
        for k in range(1, nz):
            if rep[k]:
                sh[k] = sh[k-1]
        lam = np.array([[1.0, 1.0, 2.0][i] for i in rng.integers(0, 3, nz)])
        for k in range(1, nz):
            if rep[k]:
                lam[k] = lam[k-1]
    else:
        d = ls['decades']
        sh = bg*10.0**rng.uniform(-d/2, d/2, nz)
        lam = rng.uniform(0.5, 3.0, nz)
    if ls['air']:
        sh[-1] = 1e-8
        lam[-1] = 1.0
    sv = sh/lam**2 if ls['vti'] else None
    mur = rng.uniform(0.5, 3.0, nz) if ls['mur'] else None
    epsr = rng.uniform(1.0, 40.0, nz) if ls['epsr'] else None
    return sh, sv, mur, epsr


def build_model(grid, ls, sh, sv, mur, epsr):
    import emg3d
    shape = grid.shape_cells
    m = ls['mapping']

    def full(v):
        if v is None:
            return None
        return np.ones(shape)*np.asarray(v)[None, None, :]
    return emg3d.Model(grid, full(gen.map_forward(m, sh)), None,
                       full(gen.map_forward(m, sv)), mu_r=full(mur),
                       epsilon_r=full(epsr), mapping=m)


def z_ok(z, nodes_z, margin):
    return bool(np.min(np.abs(nodes_z - z)) > margin)


def draw_z(rng, nodes_z, outside=False):
    """z strictly inside a layer (10-90 % of its thickness)."""
    if outside:
        ext = nodes_z[-1]-nodes_z[0]
        return float(nodes_z[-1]+rng.uniform(0.02, 0.2)*ext) if \
            rng.random() < 0.5 else \
            float(nodes_z[0]-rng.uniform(0.02, 0.2)*ext)
    k = rng.integers(0, nodes_z.size-1)
    return float(nodes_z[k]+rng.uniform(0.1, 0.9)*(nodes_z[k+1]-nodes_z[k]))


def build_sources(sspecs, grid, seed):
    """-> list of (emg3d source, descriptor)."""
    import emg3d
    out = []
    nx, ny, nz = grid.nodes_x, grid.nodes_y, grid.nodes_z
    hmin = min(grid.h[0].min(), grid.h[1].min(), grid.h[2].min())
    for i, ss in enumerate(sspecs):
        rng = gen.rng_of(seed, 100+i)
        c = np.array([rng.uniform(nx[0]+0.1*(nx[-1]-nx[0]),
                                  nx[-1]-0.1*(nx[-1]-nx[0])),
                      rng.uniform(ny[0]+0.1*(ny[-1]-ny[0]),
                                  ny[-1]-0.1*(ny[-1]-ny[0])),
                      draw_z(rng, nz)])
        az, el = draw_angles(rng, ss['angles'])
        strength = 1.0 if ss['strength'] == 'default' else float(
            rng.choice([-1, 1, 1, 1, 1, 1])*10.0**rng.uniform(-1, 2))
        length = 1.0 if ss['length'] == 'default' else float(
            rng.uniform(0.1, 0.8)*hmin)
        t = ss['type']
        if t.endswith('6') and ss.get('fmt23'):
            t = t[:2]+'23'
        kw = {} if ss['strength'] == 'default' else {'strength': strength}
        d = direction(az, el)
        if t in ('ep', 'mp'):
            cls = emg3d.TxElectricPoint if t == 'ep' else emg3d.TxMagneticPoint
            obj = cls((c[0], c[1], c[2], az, el), **kw)
            length = 1.0
            esrc = [c[0], c[1], c[2], az, el]
        else:
            cls = emg3d.TxElectricDipole if t[0] == 'e' else \
                emg3d.TxMagneticDipole
            if t.endswith('5'):
                if ss['length'] != 'default':
                    kw['length'] = length
                obj = cls((c[0], c[1], c[2], az, el), **kw)
                esrc = [c[0], c[1], c[2], az, el]
            else:
                if ss['length'] == 'default':
                    length = float(rng.uniform(0.1, 0.8)*hmin)
                e0, e1 = c - d*length/2, c + d*length/2
                # the centre/length the reference uses are those of the
                # electrodes actually handed over
                c = (e0+e1)/2
                length = float(np.linalg.norm(e1-e0))
                # empymod rounds the centre of a finite bipole to mm; the
                # reference has to go through the same coordinate format
                esrc = [e0[0], e1[0], e0[1], e1[1], e0[2], e1[2]]
                if t.endswith('6'):
                    obj = cls((e0[0], e1[0], e0[1], e1[1], e0[2], e1[2]),
                              **kw)
                else:
                    obj = cls([list(e0), list(e1)], **kw)
        out.append((obj, {'type': t, 'center': c, 'az': az, 'el': el,
                          'mag': t[0] == 'm', 'moment': strength*length,
                          'strength': strength, 'length': length,
                          'esrc': esrc,
                          'len_ignored_class': t in ('ed5', 'md5') and
                          length != 1.0}))
    return out


def build_receivers(rspecs, grid, seed, sources):
    import emg3d
    out = []
    nx, ny, nz = grid.nodes_x, grid.nodes_y, grid.nodes_z
    margin = 1e-3*grid.h[2].min()
    dmin = 0.1*min(grid.h[0].min(), grid.h[1].min(), grid.h[2].min())
    cs = [s[1]['center'] for s in sources]
    for i, rs in enumerate(rspecs):
        rng = gen.rng_of(seed, 200+i)
        az, el = draw_angles(rng, rs['angles'])
        rel = rs['relative']
        for attempt in range(60):
            p = np.array([rng.uniform(nx[0], nx[-1]), rng.uniform(ny[0],
                          ny[-1]), draw_z(rng, nz)])
            if rel:
                # offset with respect to the first source
                off = p - cs[0]
                absp = [c + off for c in cs]
            else:
                off = p
                absp = [p for c in cs]
            if all(z_ok(a[2], nz, margin) for a in absp) and all(
                    np.linalg.norm(a-c) > dmin for a, c in zip(absp, cs)):
                break
        else:
            # same depth as the sources would not be safe either; fall back
            # to an absolute receiver
            rel = False
            off = p
            absp = [p for c in cs]
            if not z_ok(p[2], nz, margin) or any(
                    np.linalg.norm(p-c) <= dmin for c in cs):
                raise Inconclusive("no admissible receiver position")
        cls = emg3d.RxElectricPoint if rs['type'] == 'e' else \
            emg3d.RxMagneticPoint
        kw = {'relative': True} if rel else {}
        obj = cls((off[0], off[1], off[2], az, el), **kw)
        out.append((obj, {'type': rs['type'], 'mag': rs['type'] == 'm',
                          'relative': rel, 'raw': off, 'abs': absp,
                          'az': az, 'el': el}))
    return out


def frequencies(f0, nfreq, seed):
    rng = gen.rng_of(seed, 300)
    f = [f0]
    for _ in range(nfreq-1):
        f.append(float(f0*10.0**rng.uniform(-1, 1)))
    return [float(x) for x in f]


def emp(esrc, msrc, moment, erec, mrec, freqs, lay, nodes_z):
    """Checker-side empymod call: response normalised to unit moment
    (strength=0), scaled by the moment here; layers are passed top-down."""
    import empymod
    sh, sv, mur, epsr = lay
    nodes_z = np.asarray(nodes_z, float)
    if nodes_z.size == 3:
        # One interface: empymod cannot read the orientation of the z-axis
        # off a single depth (it then assumes z positive downwards).  The
        # top layer is split by a second interface one grid extent above
        # the grid (away from all sources and receivers), so that the
        # top-down (decreasing depth) description stays unambiguous.
        nodes_z = np.r_[nodes_z, 2*nodes_z[-1]-nodes_z[0]]
        sh, sv, mur, epsr = [None if v is None else np.r_[v, v[-1]]
                             for v in (sh, sv, mur, epsr)]
    inp = {
        'src': [float(v) for v in esrc],
        'rec': [float(v) for v in erec],
        'depth': nodes_z[1:-1][::-1],
        'res': (1.0/sh)[::-1],
        'freqtime': np.asarray(freqs, float),
        'msrc': bool(msrc), 'mrec': bool(mrec),
        'strength': 0.0, 'srcpts': 1, 'recpts': 1, 'verb': 0,
    }
    if sv is not None:
        inp['aniso'] = np.sqrt(sh/sv)[::-1]
    if mur is not None:
        inp['mpermH'] = mur[::-1]
    if epsr is not None:
        inp['epermH'] = epsr[::-1]
    with quiet():
        out = empymod.bipole(**inp)
    return moment*np.atleast_1d(np.asarray(out, dtype=complex))


def rec5(r, pos):
    return [pos[0], pos[1], pos[2], r['az'], r['el']]


def reference(sources, receivers, freqs, lay, nodes_z):
    ref = np.zeros((len(sources), len(receivers), len(freqs)), complex)
    for i, (_, s) in enumerate(sources):
        for j, (_, r) in enumerate(receivers):
            ref[i, j, :] = emp(s['esrc'], s['mag'], s['moment'],
                               rec5(r, r['abs'][i]), r['mag'], freqs, lay,
                               nodes_z)
    return ref


def tensor_scale(s, r, i, freqs, lay, nodes_z):
    """Norm of the full orientation tensor of one source-receiver pair."""
    sc = np.zeros(len(freqs))
    c, q = s['center'], r['abs'][i]
    for sa in ((0., 0.), (90., 0.), (0., 90.)):
        for ra in ((0., 0.), (90., 0.), (0., 90.)):
            v = emp([c[0], c[1], c[2], sa[0], sa[1]], s['mag'], s['moment'],
                    [q[0], q[1], q[2], ra[0], ra[1]], r['mag'], freqs, lay,
                    nodes_z)
            sc += np.abs(v)**2
    return np.sqrt(sc)


def missing_values(os_, shape):
    """Entries that stand for 'no observation': nan+nanj, or (spec key
    nonfinite='mixed') a random one of nan+nanj, nan+xj, x+nanj, inf+0j,
    x-infj (none of them is finite)."""
    out = np.full(shape, np.nan+1j*np.nan)
    if os_.get('nonfinite', 'nan') == 'mixed':
        rng = gen.rng_of(os_['seed'], 401)
        kind = rng.integers(0, 5, shape)
        x = rng.standard_normal(shape)*1e-9
        out.real[kind == 2] = x[kind == 2]
        out.real[kind == 3] = np.inf
        out.real[kind == 4] = x[kind == 4]
        out.imag[kind == 1] = x[kind == 1]
        out.imag[kind == 3] = 0.0
        out.imag[kind == 4] = -np.inf
    return out


def observed_data(os_, shape):
    """-> (data array or None, mask of entries that have to be computed)."""
    rng = gen.rng_of(os_['seed'], 400)
    mode = os_['mode']
    if mode == 'none':
        return None, np.ones(shape, bool)
    data = (rng.standard_normal(shape)+1j*rng.standard_normal(shape))*1e-9
    if mode == 'full':
        return data, np.ones(shape, bool)
    if mode == 'allnan':
        return missing_values(os_, shape), np.ones(shape, bool)
    fin = rng.random(shape) < 0.6
    # whole rows / whole sources missing are frequent in practice
    if rng.random() < 0.5:
        fin[rng.integers(0, shape[0]), rng.integers(0, shape[1]), :] = False
    if shape[0] > 1 and rng.random() < 0.3:
        fin[rng.integers(0, shape[0]), :, :] = False
    if rng.random() < 0.3:
        fin[:, :, rng.integers(0, shape[2])] = False
    if not fin.any():
        fin[0, 0, 0] = True
    data = np.where(fin, data, missing_values(os_, shape))
    return data, fin


def layered_opts(ms, scale):
    lo = {'method': ms['method']}
    if not ms.get('method_given', True):
        del lo['method']        # documented default: 'cylinder'
    if ms['merge'] is not None:
        lo['merge'] = ms['merge']
    if ms['method'] in ('prism', 'cylinder'):
        ell = {}
        if ms['radius'] is not None:
            ell['radius'] = ms['radius']*scale
        if ms['factor'] is not None:
            ell['factor'] = ms['factor']
        if ms['minor'] is not None:
            ell['minor'] = ms['minor']
        if ms['check_foci'] is not None:
            ell['check_foci'] = ms['check_foci']
        if ell:
            lo['ellipse'] = ell
    return lo


def run_simulation(sources, receivers, freqs, data, model, lo, gridding='same',
                   history='fresh', **skw):
    """history: 'fresh' - Simulation(layered=True); 'setter' - built as a 3D
    simulation, then `sim.layered = True` (what the CLI does); 'dict' -
    Simulation.from_dict(sim.to_dict()) of a fresh one."""
    import emg3d
    with quiet():
        survey = emg3d.Survey([s[0] for s in sources],
                              [r[0] for r in receivers], freqs,
                              data=None if data is None else data.copy(),
                              **skw)
        sim = emg3d.Simulation(survey, model, layered=history != 'setter',
                               layered_opts=lo, max_workers=1,
                               tqdm_opts=False, gridding=gridding)
        if history == 'setter':
            sim.layered = True
        elif history == 'dict':
            sim = emg3d.Simulation.from_dict(sim.to_dict())
    return sim


def check_options(sim, ms, lo, scale, lay, freqs):
    """Documented defaults (Simulation docstring, `layered_opts`): method
    'cylinder'; for cylinder and prism factor 1.2, minor 0.8, radius one
    skin depth for the lowest frequency and the minimum conductivity of the
    lowest layer.  Given options are kept."""
    if sim.layered is not True:
        raise Violation("layered_flag", f"sim.layered is {sim.layered!r}")
    got = sim.layered_opts
    if got.get('method') != ms['method']:
        given = ms.get('method_given', True)
        raise Violation(
            f"layered_opts_{'given' if given else 'default'}:method",
            f"layered_opts={lo} gives method {got.get('method')!r}, "
            f"expected {ms['method']!r} "
            f"({'as given' if given else 'documented default'})")
    if ms['method'] not in ('prism', 'cylinder'):
        return
    ell = got.get('ellipse', {})
    skin = 1/np.sqrt(np.pi*min(freqs)*gen.mu_0*lay[0][0])
    exp = {'factor': 1.2 if ms['factor'] is None else ms['factor'],
           'minor': 0.8 if ms['minor'] is None else ms['minor'],
           'radius': skin if ms['radius'] is None else ms['radius']*scale}
    for k, v in exp.items():
        g = ell.get(k)
        if g is None or not abs(g-v) <= 1e-9*abs(v):
            given = ms[k] is not None
            raise Violation(
                f"layered_opts_{'given' if given else 'default'}:{k}",
                f"layered_opts={lo}: ellipse[{k!r}]={g!r}, expected {v!r} "
                f"({'as given' if given else 'documented default'}; lowest "
                f"frequency {min(freqs)} Hz, lowest layer {lay[0][0]} S/m)")


def ellipse_ref(X, Y, p0, p1, radius, factor=1.0, minor=1.0,
                check_foci=True):
    """Documented ellipse of maps.ellipse_indices, evaluated in the rotated
    frame (centre = midpoint, major axis through p0, p1; a = max(f c, c+r),
    b = max(m a, r) and, with check_foci, b >= sqrt(a^2-c^2)).

    -> (Q, border, a, b, c): membership is Q <= 1; `border` flags the points
    whose membership is within rounding of the boundary.  The band is
    1e-9 relative to the size of the terms of the implementation's quadratic
    form (which cancel for slender ellipses) plus 1e3 times the effect of the
    rounding of the coordinate differences."""
    p0, p1 = np.asarray(p0, float), np.asarray(p1, float)
    c = float(np.linalg.norm(p1-p0)/2)
    a = max(factor*c, c+radius)
    b = max(minor*a, radius)
    if check_foci:
        b = max(b, float(np.sqrt(max(a*a-c*c, 0.0))))
    cen = (p0+p1)/2
    u = (p1-p0)/(2*c) if c > 0 else np.array([1.0, 0.0])
    Xc, Yc = X-cen[0], Y-cen[1]
    xi = Xc*u[0]+Yc*u[1]
    eta = -Xc*u[1]+Yc*u[0]
    Q = (xi/a)**2+(eta/b)**2
    w = 1/a**2+1/b**2
    r = np.hypot(Xc, Yc)
    big = max(float(np.max(np.abs(X), initial=0.0)),
              float(np.max(np.abs(Y), initial=0.0)),
              float(np.max(np.abs(p0))), float(np.max(np.abs(p1))))
    delta = 4*np.finfo(float).eps*big
    border = np.abs(Q-1) <= 1e-9*(1+r*r*w) + 1e3*(2*r*delta+delta**2)*w
    return Q, border, a, b, c


def weighted_means(imat, v3, mapname, mapped=True):
    """imat-weighted means of v3 (nx, ny, nz) over the first two axes."""
    w = imat[:, :, None]
    use = (imat > 0)[:, :, None]
    out = {'arithmetic': np.sum(w*v3, axis=(0, 1))}
    with np.errstate(all='ignore'):
        if np.all(v3[imat > 0] > 0):
            out['geometric'] = 10.0**np.sum(
                w*np.log10(np.where(use, v3, 1.0)), axis=(0, 1))
            out['harmonic'] = 1.0/np.sum(w/np.where(use, v3, 1.0),
                                         axis=(0, 1))
        if mapped and mapname.startswith('L'):
            b = 10.0 if mapname.startswith('Lg') else np.e
            lin = b**np.where(use, v3, 0.0)
            out['arithmetic_of_linear'] = np.log(np.sum(
                w*lin, axis=(0, 1)))/np.log(b)
            out['harmonic_of_linear'] = -np.log(np.sum(
                w/lin, axis=(0, 1)))/np.log(b)
    return {k: v for k, v in out.items() if np.all(np.isfinite(v))}


def first_layer_minus_one(model):
    vals = [getattr(model, p) for p in ('property_x', 'property_y',
                                        'property_z', 'mu_r', 'epsilon_r')
            if getattr(model, p) is not None]
    return all(np.all(v[:, :, 0] == -1.0) for v in vals)


# ------------------------------------------------------------------ forward
def method_spec(method, merge=(None, False, True, True)):
    opt = lambda s: st.one_of(st.none(), s, s, s)  # noqa: E731
    return st.fixed_dictionaries({
        'method': st.just(method),
        'merge': st.sampled_from(list(merge)),
        'radius': opt(gen.lgfloat(0.01, 20)),
        'factor': opt(st.floats(0.5, 3.0)),
        'minor': opt(st.floats(0.05, 1.5)),
        'check_foci': st.sampled_from([None, True, False]),
        # 'method' left out of layered_opts (documented default: cylinder)
        'method_given': st.sampled_from([True, True, False]) if
        method == 'cylinder' else st.just(True),
    })


def layers_spec():
    return st.fixed_dictionaries({
        'mode': st.sampled_from(['random', 'random', 'palette']),
        'vti': st.booleans(),
        'mapping': st.sampled_from(gen.MAPPINGS),
        'decades': st.floats(0.3, 2.0),
        'air': st.sampled_from([False, False, True, False, False]),
        'mur': st.sampled_from([False, False, True, False, False]),
        'epsr': st.sampled_from([False, False, False, True, False]),
        'seed': gen.SEED,
    })


def src_spec():
    return st.fixed_dictionaries({
        'type': st.sampled_from(SRC_TYPES),
        # the [[x1,y1,z1],[x2,y2,z2]] format of a dipole (types e/md6 only)
        'fmt23': st.integers(0, 13).map(lambda k: k == 6),
        'strength': st.sampled_from(['default', 'random']),
        'length': st.sampled_from(['default', 'random']),
        'angles': st.sampled_from(['random', 'random', 'cardinal']),
    })


def rec_spec():
    return st.fixed_dictionaries({
        'type': st.sampled_from(['e', 'm']),
        'relative': st.integers(0, 2).map(lambda k: k == 0),
        'angles': st.sampled_from(['random', 'random', 'cardinal']),
    })


# small counts: a single column of cells (the natural input of a layered
# computation), a full space (nz=1), one interface (nz=2)
GRID = gen.grid_spec([[5, 6, 7, 8, 9, 1, 2], [4, 5, 6, 7, 1, 2],
                      [5, 6, 7, 8, 9, 5, 6, 7, 8, 9, 2, 3, 2, 1]],
                     kinds=('stretch', 'stretch', 'random', 'uniform'))
HISTORY = ['fresh', 'fresh', 'setter', 'dict', 'twice']


# induction number omega mu0 sigma h^2 (h: cell scale): static ... inductive
FREQ = st.fixed_dictionaries({
    'f': gen.lgfloat(1e-2, 1e3), 'laplace': st.just(False),
    'lgind': st.one_of(st.floats(-3, 1), st.floats(-6, -3), st.floats(-3, 1))})


def regime(fs):
    v = fs['lgind']
    return 'induction<1e-3' if v < -3 else 'induction<1e-1' if v < -1 else \
        'induction>=1e-1'


def forward_strategy():
    return st.fixed_dictionaries({
        'grid': GRID,
        'freq': FREQ,
        'nfreq': st.integers(1, 3),
        'layers': layers_spec(),
        'sources': st.lists(src_spec(), min_size=1, max_size=3),
        'receivers': st.lists(rec_spec(), min_size=1, max_size=4),
        'sseed': gen.SEED,
        'obs': st.fixed_dictionaries({
            'mode': st.sampled_from(['none', 'full', 'gaps', 'gaps',
                                     'allnan']),
            'nonfinite': st.sampled_from(['mixed', 'nan', 'mixed']),
            'seed': gen.SEED}),
        'methods': st.tuples(*[method_spec(m) for m in METHODS]).map(list),
        'gridding': st.just('same'),
        'history': st.sampled_from(HISTORY),
        # nx = ny = 1
        'column': st.sampled_from([False]*6+[True]),
    })


def setup_problem(spec):
    gs = spec['grid']
    if spec.get('column', False):
        gs = dict(gs, n=[1, 1, gs['n'][2]])
    grid = gen.build_grid(gs)
    scale = spec['grid']['scale']
    fs = spec['freq']
    bg = float(np.clip(gen.bg_cond(fs, scale), 1e-5, 1e3))
    nz = grid.shape_cells[2]
    lay = build_layers(spec['layers'], nz, bg)
    model = build_model(grid, spec['layers'], *lay)
    sources = build_sources(spec['sources'], grid, spec['sseed'])
    receivers = build_receivers(spec['receivers'], grid, spec['sseed'],
                                sources)
    f0 = fs['f']
    if spec['layers']['mode'] == 'palette':
        # palette conductivities are absolute numbers: choose the frequency
        # that gives the drawn induction number for 1 S/m instead
        f0 = float(np.clip(10.0**fs['lgind']/(2*np.pi*gen.mu_0*scale**2),
                           1e-3, 1e5))
    freqs = frequencies(f0, spec['nfreq'], spec['sseed'])
    return grid, scale, lay, model, sources, receivers, freqs


def noise_level(s, r, i, freqs, lay, nodes_z, ref_ij):
    """Numerical noise of the reference itself: largest change of the
    response under ten 1e-15..1e-12 relative perturbations of the layer
    parameters.  Strongly attenuated responses (many skin depths) are sums of
    large cancelling filter terms; there a one-ulp difference in an input
    (1/(1/x), 10**log10(x)) re-rolls the rounding of the whole sum."""
    sh, sv, mur, epsr = lay
    n = np.zeros(len(freqs))
    # Ten perturbations at relative sizes 1e-15..1e-12: the noise is chaotic
    # (a sample of four at 1e-13 was seen to underestimate it 20-fold).
    for t in range(10):
        rng = gen.rng_of(977+t, 7)
        eps = 10.0**rng.uniform(-15, -12)
        sh2 = sh*(1+eps*rng.choice([-1, 1], sh.size))
        sv2 = None if sv is None else sv*(1+eps*rng.choice([-1, 1], sh.size))
        # (extract_1d sends mu_r / epsilon_r through 10**(sum w log10) under
        # the linear mappings: one-ulp changes there as well)
        mur2 = None if mur is None else \
            mur*(1+eps*rng.choice([-1, 1], sh.size))
        epsr2 = None if epsr is None else \
            epsr*(1+eps*rng.choice([-1, 1], sh.size))
        v = emp(s['esrc'], s['mag'], s['moment'], rec5(r, r['abs'][i]),
                r['mag'], freqs, (sh2, sv2, mur2, epsr2), nodes_z)
        n = np.maximum(n, np.abs(v-ref_ij))
    # the relative noise level of the pair applies to all its frequencies
    with np.errstate(invalid='ignore', divide='ignore'):
        rel = np.nanmax(np.where(np.abs(ref_ij) > 0, n/np.abs(ref_ij), 0.0))
    return np.maximum(n, rel*np.abs(ref_ij))


def compare(got, ref, mask, sources, receivers, freqs, lay, nodes_z,
            stats=None, cache=None):
    """-> list of (i, j, k, category) of mismatching compared entries.

    An entry agrees if |got-ref| <= 1e-10 |ref|, or <= 1e-11 of the norm of
    the orientation tensor of the pair (coupling nulls), or <= 20 times the
    measured numerical noise of the reference (see noise_level)."""
    bad = []
    d = np.abs(got-ref)
    with np.errstate(invalid='ignore'):
        cand = mask & ~(d <= 1e-10*np.abs(ref))
    for i, j in sorted({(i, j) for i, j, k in zip(*np.nonzero(cand))}):
        s, r = sources[i][1], receivers[j][1]
        cache = {} if cache is None else cache
        if ('sc', i, j) not in cache:
            cache['sc', i, j] = tensor_scale(s, r, i, freqs, lay, nodes_z)
        sc = cache['sc', i, j]
        noise = cache.get(('noise', i, j))
        for k in np.nonzero(cand[i, j, :])[0]:
            if d[i, j, k] <= 1e-11*sc[k]:
                if stats is not None:
                    stats['null'] = stats.get('null', 0)+1
                continue
            if noise is None:
                noise = noise_level(s, r, i, freqs, lay, nodes_z,
                                    ref[i, j, :])
                cache['noise', i, j] = noise
            if d[i, j, k] <= 20*noise[k]:
                if stats is not None:
                    stats['noise'] = stats.get('noise', 0)+1
                continue
            if r['relative']:
                cat = 'rx_relative'
            elif s['len_ignored_class']:
                cat = 'src_dipole5_length'
            elif s['strength'] < 0:
                cat = 'src_strength_negative'
            else:
                cat = 'plain'
            bad.append((int(i), int(j), int(k), cat))
    return bad


def case_forward(spec, rec):
    grid, scale, lay, model, sources, receivers, freqs = setup_problem(spec)
    nodes_z = grid.nodes_z
    shape = (len(sources), len(receivers), len(freqs))
    data, mask = observed_data(spec['obs'], shape)
    ref = reference(sources, receivers, freqs, lay, nodes_z)
    has23 = any(s[1]['type'].endswith('23') for s in sources)
    flm1 = first_layer_minus_one(model)

    history = spec.get('history', 'fresh')
    results = {}
    for ms in spec['methods']:
        lo = layered_opts(ms, scale)
        sim = run_simulation(sources, receivers, freqs, data, model, lo,
                             spec['gridding'],
                             'fresh' if history == 'twice' else history)
        check_options(sim, ms, lo, scale, lay, freqs)
        try:
            with quiet():
                sim.compute()
                if history == 'twice':
                    sim.compute()
        except ValueError as e:
            if has23 and 'wrong length' in str(e):
                raise Violation(
                    "exception:ValueError:src_format_2x3",
                    "layered mode cannot handle a dipole source given in the "
                    "documented [[x1,y1,z1],[x2,y2,z2]] format: " + str(e),
                    {'sources': [s[1]['type'] for s in sources]})
            raise
        results[ms['method']] = (np.array(sim.data.synthetic.data), lo, ms)

    # ---- NaN pattern -------------------------------------------------
    pending = []
    filled = False
    for m, (got, lo, ms) in results.items():
        if got.shape != shape:
            raise Violation("synthetic_shape", f"{got.shape} vs {shape}")
        # the statement demands a response wherever the observation is
        # finite (everywhere if there is none); entries without observation
        # are NaN on this tree, which is recorded but not demanded
        nanpat = ~np.isfinite(got)
        if np.any(nanpat & mask):
            extra = int((nanpat & mask).sum())
            miss = int((~nanpat & ~mask).sum())
            raise Violation(
                f"nan_pattern:obs={spec['obs']['mode']}",
                f"method {m}: {extra} entries with finite observation are "
                f"not finite ({miss} entries without observation were "
                f"computed); expected mask {mask.astype(int).tolist()}, got "
                f"non-finite at {nanpat.astype(int).tolist()}; observed "
                f"data {None if data is None else data.tolist()}")
        if np.any(~nanpat & ~mask):
            filled = True

    # ---- values against the direct empymod call -----------------------
    stats, cache = {}, {}
    bads = {m: compare(got, ref, mask, sources, receivers, freqs, lay,
                       nodes_z, stats, cache) for m, (got, lo, ms) in
            results.items()}
    plain = {m: [b for b in bl if b[3] == 'plain'] for m, bl in bads.items()}
    nplain = [m for m in METHODS if plain[m]]
    if nplain:
        m = nplain[0]
        i, j, k, _ = plain[m][0]
        got, lo, ms = results[m]
        s, r = sources[i][1], receivers[j][1]
        msg = (f"method {m} opts {lo}: synthetic[{i},{j},{k}]={got[i, j, k]} "
               f"vs empymod {ref[i, j, k]} (src {s['type']} rec {r['type']} "
               f"f={freqs[k]}); {len(plain[m])} entries differ")
        # is it the merge option?  (same method without merging)
        if lo.get('merge'):
            lo2 = dict(lo)
            lo2['merge'] = False
            sim = run_simulation(sources, receivers, freqs, data, model, lo2,
                                 spec['gridding'])
            with quiet():
                sim.compute()
            b2 = [b for b in compare(np.array(sim.data.synthetic.data), ref,
                                     mask, sources, receivers, freqs, lay,
                                     nodes_z, None, cache)
                  if b[3] == 'plain']
            if not b2:
                raise Violation(
                    "method_dependence:merge" +
                    (":first_layer_minus_one" if flm1 else ""),
                    "merge=True changes the response of a laterally "
                    "invariant model; " + msg)
        if len(nplain) == len(METHODS):
            sig = ("synthetic_mismatch:all_methods:"
                   f"{'vti' if spec['layers']['vti'] else 'isotropic'}")
            raise Violation(sig, msg)
        raise Violation(f"method_dependence:{m}", msg)
    for cat in ('src_strength_negative', 'src_dipole5_length', 'rx_relative'):
        for m in METHODS:
            bl = [b for b in bads[m] if b[3] == cat]
            if bl:
                pending.append((cat, m, bl))
    # ---- classification (before known-defect categories are raised) ----
    sh = lay[0]
    comp = np.abs(ref[mask])
    nontriv = (np.unique(sh).size >= 2 and comp.size > 0 and
               comp.max() > 1e-200)
    rec.cls(f"mapping={spec['layers']['mapping']}",
            f"vti={spec['layers']['vti']}", f"layers={spec['layers']['mode']}",
            f"air={spec['layers']['air']}", f"mur={spec['layers']['mur']}",
            f"epsr={spec['layers']['epsr']}", f"obs={spec['obs']['mode']}",
            f"widths={spec['grid']['kind']}", regime(spec['freq']),
            f"nfreq={len(freqs)}", f"gridding={spec['gridding']}",
            f"history={history}",
            f"nz={grid.shape_cells[2] if grid.shape_cells[2] < 4 else '4+'}",
            f"nx*ny={'1' if grid.shape_cells[0]*grid.shape_cells[1] == 1 else '2+'}",
            f"entries_without_observation_computed={filled}",
            f"underflow={bool(comp.size and comp.max() <= 1e-200)}",
            f"distinct_layers={min(np.unique(sh).size, 3)}{'+' if np.unique(sh).size >= 3 else ''}",
            f"entries_within_null_tolerance={stats.get('null', 0) > 0}",
            f"entries_within_noise_tolerance={stats.get('noise', 0) > 0}")
    for s in sources:
        rec.cls(f"src={s[1]['type']}")
    for r in receivers:
        rec.cls(f"rec={r[1]['type']}{'-rel' if r[1]['relative'] else '-abs'}")
    if spec['obs']['mode'] in ('gaps', 'allnan'):
        rec.cls(f"missing_obs_as={spec['obs'].get('nonfinite', 'nan')}")
    for ms in spec['methods']:
        if ms['method'] in ('prism', 'cylinder'):
            rec.cls(f"radius_default={ms['radius'] is None}",
                    f"factor_default={ms['factor'] is None}",
                    f"minor_default={ms['minor'] is None}")
        if ms['method'] == 'cylinder':
            rec.cls(f"method_default={not ms.get('method_given', True)}")
        rec.cls(f"merge={ms['merge']}")
    if nontriv:
        rec.nt([list(grid.shape_cells), spec['grid']['seed'],
                spec['layers']['seed'], spec['sseed'], spec['obs']['seed']])
    rec.note({'shape': list(grid.shape_cells), 'sigma_h': sh,
              'src': [s[1]['type'] for s in sources],
              'rec': [r[1]['type'] for r in receivers], 'freqs': freqs,
              'max|ref|': float(comp.max()) if comp.size else None})

    if pending:
        cat, m, bl = pending[0]
        i, j, k, _ = bl[0]
        got = results[m][0]
        s, r = sources[i][1], receivers[j][1]
        if cat == 'rx_relative':
            alt = emp(s['esrc'], s['mag'], s['moment'], rec5(r, r['raw']),
                      r['mag'], freqs, lay, nodes_z)[k]
            hint = (f"; response at the offset taken as absolute position: "
                    f"{alt}")
        else:
            alt = emp(s['esrc'], s['mag'], 1.0, rec5(r, r['abs'][i]),
                      r['mag'], freqs, lay, nodes_z)[k]
            hint = (f"; response of a unit dipole (1 A, 1 m): {alt}; "
                    f"strength={s['strength']} length={s['length']}")
        raise Violation(
            f"synthetic_mismatch:{cat}",
            f"method {m}: synthetic[{i},{j},{k}]={got[i, j, k]} vs empymod "
            f"{ref[i, j, k]} (src {s['type']}, rec {r['type']} relative="
            f"{r['relative']}){hint}")


# ------------------------------------------------------------------ extract
def extract_strategy():
    return st.fixed_dictionaries({
        'grid': gen.grid_spec([[1, 2, 3, 4, 5, 6, 7, 8, 9]]*3),
        'model': gen.model_spec(max_decades=3.0),
        'palette': st.integers(0, 2).map(lambda k: k == 0),
        'dup': st.booleans(),
        'method': st.sampled_from(['midpoint', 'cylinder', 'prism',
                                   'cylinder', 'prism']),
        'p1': st.sampled_from(['none', 'same', 'other', 'other', 'other']),
        'where': st.sampled_from(['inside', 'inside', 'inside', 'node',
                                  'outside']),
        'radius': gen.lgfloat(0.01, 20),
        'factor': st.one_of(st.none(), st.floats(0.5, 3.0)),
        'minor': st.one_of(st.none(), st.floats(0.05, 1.5)),
        'check_foci': st.sampled_from([None, True, False]),
        'merge': st.sampled_from([True, True, False]),
        'pseed': gen.SEED,
    })


def draw_point(rng, grid, where):
    nx, ny = grid.nodes_x, grid.nodes_y
    if where == 'node':
        return [float(rng.choice(nx)), float(rng.choice(ny))]
    if where == 'outside':
        ex, ey = nx[-1]-nx[0], ny[-1]-ny[0]
        return [float(rng.uniform(nx[0]-0.5*ex, nx[-1]+0.5*ex)),
                float(rng.uniform(ny[0]-0.5*ey, ny[-1]+0.5*ey))]
    return [float(rng.uniform(nx[0], nx[-1])), float(rng.uniform(ny[0],
                                                               ny[-1]))]


def extract_model(spec):
    grid = gen.build_grid(spec['grid'])
    model, _ = gen.build_model(grid, spec['model'])
    rng = gen.rng_of(spec['pseed'], 31)
    shape = grid.shape_cells
    if spec['palette']:
        # round values (in the Lg mappings these are the integers -2..2),
        # anisotropy ratios 1 or 4, mostly without mu_r / epsilon_r
        import emg3d
        mp = spec['model']['mapping']
        lay = np.array([PALETTE[i] for i in rng.integers(
            0, len(PALETTE), shape[2])])
        lat = np.ones(shape[:2]) if rng.random() < 0.7 else \
            10.0**rng.integers(0, 2, shape[:2])
        sx = lat[:, :, None]*lay[None, None, :]
        props = {}
        for p in ('property_y', 'property_z'):
            if getattr(model, p) is not None:
                lam2 = np.array([[1.0, 1.0, 4.0][i] for i in rng.integers(
                    0, 3, shape[2])])
                props[p] = gen.map_forward(mp, sx/lam2[None, None, :])
        keep = rng.random() < 0.3
        model = emg3d.Model(
            grid, gen.map_forward(mp, sx), mapping=mp, **props,
            mu_r=model.mu_r if keep else None,
            epsilon_r=model.epsilon_r if keep else None)
    if spec['dup'] and shape[2] > 1:
        # repeat layers so that merge has something to merge
        idx = np.sort(rng.integers(0, shape[2], shape[2]))
        for p in model._def_properties:
            v = getattr(model, p)
            v[:] = v[:, :, idx]
    return grid, model


def case_extract(spec, rec):
    import emg3d
    grid, model = extract_model(spec)
    rng = gen.rng_of(spec['pseed'], 32)
    scale = spec['grid']['scale']
    p0 = draw_point(rng, grid, spec['where'])
    if spec['p1'] == 'none':
        p1 = None
    elif spec['p1'] == 'same':
        p1 = list(p0)
    else:
        p1 = draw_point(rng, grid, spec['where'])
    method = spec['method']
    ell = {'radius': spec['radius']*scale}
    for k in ('factor', 'minor', 'check_foci'):
        if spec[k] is not None:
            ell[k] = spec[k]
    kw = {}
    if method != 'midpoint' or rng.random() < 0.3:
        kw['ellipse'] = ell
    flm1 = False
    nx, ny, nz = grid.shape_cells

    def call(merge):
        out = model.extract_1d(method, p0, p1, merge=merge, return_imat=True,
                               **kw)
        if not (isinstance(out, tuple) and len(out) == 2):
            raise Violation("extract_return", "return_imat=True does not "
                            "return (model, imat)")
        return out
    oned, imat = call(False)
    desc = f"method={method} p0={p0} p1={p1} opts={kw}"

    # --- weights ------------------------------------------------------
    if imat.shape != (nx, ny):
        raise Violation("imat_shape", f"{imat.shape} vs {(nx, ny)}; {desc}")
    if not np.all(np.isfinite(imat)) or np.any(imat < 0):
        raise Violation(f"imat_negative:{method}",
                        f"min {np.nanmin(imat)}; {desc}")
    if abs(imat.sum()-1.0) > 1e-12:
        raise Violation(f"imat_sum:{method}",
                        f"sum(imat)={imat.sum()!r}; {desc}")
    # documented selection and volume weights
    q0 = np.array(p0, float)
    q1 = q0 if p1 is None else np.array(p1, float)
    mid = (q0+q1)/2
    area = np.outer(grid.h[0], grid.h[1])
    sel = 'midpoint'
    if method != 'midpoint':
        use = emg3d.maps.ellipse_indices(
            (grid.cell_centers_x, grid.cell_centers_y), p0=q0, p1=q1, **ell)
        # the documented ellipse, evaluated by the checker; wherever no cell
        # centre is within rounding of the boundary the expected selection
        # does not depend on emg3d at all
        Xc, Yc = np.meshgrid(grid.cell_centers_x, grid.cell_centers_y,
                             indexing='ij')
        Q, border, ea, eb, ec = ellipse_ref(
            Xc, Yc, q0, q1, ell['radius'], ell.get('factor', 1.0),
            ell.get('minor', 1.0), ell.get('check_foci', True))
        wrong = (use != (Q <= 1)) & ~border
        if np.any(wrong):
            i = tuple(int(v[0]) for v in np.nonzero(wrong))
            raise Violation(
                "ellipse_membership:cell_centres",
                f"cell centre ({Xc[i]}, {Yc[i]}) has (xi/a)^2+(eta/b)^2="
                f"{Q[i]} (a={ea}, b={eb}, c={ec}) but ellipse_indices says "
                f"{bool(use[i])}; {desc}")
        own_sel = not border.any()
        if own_sel:
            use = Q <= 1
        if use.any():
            sel = method
            if method == 'prism':
                ix, iy = np.nonzero(use)
                box = np.zeros_like(use)
                box[ix.min():ix.max()+1, iy.min():iy.max()+1] = True
                use = box
            w = area*use
            w = w/w.sum()
            if np.any(np.abs(imat-w) > 1e-12):
                raise Violation(
                    f"imat_weights:{method}",
                    f"imat is not the area weighting of the {method} "
                    f"selection: max diff {np.abs(imat-w).max():.3e}; {desc}")
    if sel == 'midpoint':
        if np.count_nonzero(imat) != 1:
            raise Violation("imat_midpoint", f"{np.count_nonzero(imat)} "
                            f"non-zero weights; {desc}")
        i, j = [int(v[0]) for v in np.nonzero(imat)]
        for ax, (ii, nodes) in enumerate(((i, grid.nodes_x),
                                          (j, grid.nodes_y))):
            c = float(np.clip(mid[ax], nodes[0], nodes[-1]))
            tol = 1e-9*(nodes[-1]-nodes[0])
            if not (nodes[ii]-tol <= c <= nodes[ii+1]+tol):
                raise Violation(
                    "imat_midpoint_cell",
                    f"selected cell [{nodes[ii]}, {nodes[ii+1]}] along "
                    f"{'xy'[ax]} does not contain the midpoint {mid[ax]} "
                    f"(clipped to the grid); {desc}")
            # documented: "The x- and y-width of the returned model
            # corresponds to the selected cell."
            wout = float(oned.grid.h[ax][0])
            if oned.grid.h[ax].size != 1 or abs(wout-grid.h[ax][ii]) > \
                    1e-9*grid.h[ax][ii]:
                raise Violation(
                    "extract_width:midpoint",
                    f"{'xy'[ax]}-width of the returned model {wout} is not "
                    f"the width {grid.h[ax][ii]} of the selected cell; "
                    f"{desc}")

    # --- extracted model ------------------------------------------------
    if oned.grid.shape_cells != (1, 1, nz):
        raise Violation("extract_shape", f"{oned.grid.shape_cells}; {desc}")
    if oned.map.name != model.map.name or oned.case != model.case:
        raise Violation("extract_meta", f"{oned.map.name}/{oned.case}")
    if not np.allclose(oned.grid.nodes_z, grid.nodes_z, rtol=0,
                       atol=1e-9*(grid.nodes_z[-1]-grid.nodes_z[0])):
        raise Violation("extract_nodes", "z-nodes changed without merge")
    supp = imat > 0
    vals = {}
    averaged = set()
    for p in model._properties:
        v3 = getattr(model, p)
        v1 = getattr(oned, p)
        if (v3 is None) != (v1 is None):
            raise Violation("extract_meta", f"{p} defined-ness changed")
        if v3 is None:
            continue
        v1 = v1[0, 0, :]
        vals[p] = v1
        lo = v3[supp].reshape(-1, nz).min(axis=0)
        hi = v3[supp].reshape(-1, nz).max(axis=0)
        tol = 1e-12*np.maximum(np.abs(lo), np.abs(hi))+1e-300
        if np.any(v1 < lo-tol) or np.any(v1 > hi+tol):
            k = int(np.argmax((v1 < lo-tol) | (v1 > hi+tol)))
            raise Violation(
                f"extract_range:{method}:{model.map.name}",
                f"{p} layer {k}: {v1[k]!r} outside [{lo[k]!r}, {hi[k]!r}] of "
                f"the selected cells; {desc}")
        # documented: "volume-averages the values of each layer" with the
        # weights imat.  Which mean is not documented (the code averages
        # log10 of the values under the linear mappings): any of the
        # imat-weighted arithmetic / geometric / harmonic means of the stored
        # values, or of the values mapped to the linear scale (log
        # mappings), is accepted - but it has to be the same one in all
        # layers, and the weights have to be imat.
        cands = weighted_means(imat, v3, model.map.name,
                               p.startswith('property'))
        scale_k = np.maximum(np.abs(lo), np.abs(hi))
        okc = [n for n, cv in cands.items()
               if np.all(np.abs(cv-v1) <= 1e-10*scale_k+1e-300)]
        if not okc:
            best = min(cands, key=lambda n: np.max(np.abs(cands[n]-v1)))
            k = int(np.argmax(np.abs(cands[best]-v1)))
            raise Violation(
                f"extract_average:{sel}:{model.map.name}",
                f"{p}: extracted {v1.tolist()} is none of the imat-weighted "
                f"means {list(cands)} of the selected cells; closest is the "
                f"{best} mean {cands[best].tolist()} (layer {k}: {v1[k]!r} "
                f"vs {cands[best][k]!r}); {desc}")
        if np.any(hi-lo > 1e-9*scale_k):
            averaged.update(okc if len(okc) < len(cands) else ['any'])

    # --- merge ------------------------------------------------------------
    flm1 = all(v[0] == -1.0 for v in vals.values())
    merged = None
    if spec['merge']:
        merged, imat2 = call(True)
        if not np.array_equal(imat, imat2):
            raise Violation("merge_imat", "imat depends on merge")
        mz = merged.grid.nodes_z
        ext = grid.nodes_z[-1]-grid.nodes_z[0]
        tol = 1e-9*ext
        sfx = ":first_layer_minus_one" if flm1 else ""
        if abs(mz[0]-grid.nodes_z[0]) > tol or abs(mz[-1]-grid.nodes_z[-1]) \
                > tol:
            raise Violation(
                "merge_extent" + sfx,
                f"merged model spans z=[{mz[0]}, {mz[-1]}], the model "
                f"[{grid.nodes_z[0]}, {grid.nodes_z[-1]}]; layer values "
                f"{ {p: v.tolist() for p, v in vals.items()} }; {desc}")
        if np.any(np.min(np.abs(mz[:, None]-grid.nodes_z[None, :]), axis=1)
                  > tol):
            raise Violation("merge_nodes" + sfx, "merged interfaces are not "
                            "interfaces of the model")
        idx = np.searchsorted(mz, grid.cell_centers_z)-1
        same = np.ones(merged.grid.shape_cells[2]-1, bool)
        for p, v1 in vals.items():
            vm = getattr(merged, p)[0, 0, :]
            if not np.array_equal(vm[idx], v1):
                raise Violation(
                    "merge_values" + sfx,
                    f"{p}: merged {vm.tolist()} on {mz.tolist()} is not the "
                    f"unmerged {v1.tolist()}; {desc}")
            same &= vm[1:] == vm[:-1]
        if same.any():
            raise Violation("merge_incomplete", "adjacent merged layers are "
                            "identical in all properties")

    nlay = len(np.unique(np.stack(list(vals.values())), axis=1).T)
    rec.cls(f"method={method}", f"selection={sel}",
            f"ncells={int(supp.sum()) if supp.sum() < 3 else '3+'}",
            f"case={model.case}", f"mapping={model.map.name}",
            f"merge={spec['merge']}", f"where={spec['where']}",
            f"p1={spec['p1']}", f"palette={spec['palette']}",
            f"first_layer_minus_one={flm1}",
            f"first_layer_minus_one&merge={flm1 and spec['merge']}")
    if method != 'midpoint':
        rec.cls(f"selection_by_checker={own_sel}")
    # layers in which the selected cells differ: which mean reproduces them
    rec.cls("averaged_distinct_values=" +
            ('none' if not averaged else '+'.join(sorted(averaged))))
    if merged is not None:
        rec.cls(f"merged_layers={'fewer' if merged.grid.shape_cells[2] < nz else 'same'}")
    if supp.sum() > 1 or (spec['merge'] and merged.grid.shape_cells[2] < nz):
        rec.nt([list(grid.shape_cells), spec['grid']['seed'],
                spec['model']['seed'], spec['pseed'], method])
    rec.note({'shape': list(grid.shape_cells), 'method': method,
              'cells': int(supp.sum()), 'distinct_layers': int(nlay)})


# ------------------------------------------------------------------ ellipse
def ellipse_strategy():
    return st.fixed_dictionaries({
        'grid': gen.grid_spec([[1, 2, 3, 5, 8, 13, 20]]*3),
        'coo': st.sampled_from(['vectors', 'vectors', 'irregular']),
        'geom': st.sampled_from(['general', 'general', 'general', 'same',
                                 'dy0', 'dx0', 'far']),
        'radius': gen.lgfloat(0.01, 20),
        'factor': st.one_of(st.none(), st.floats(0.5, 3.0)),
        'minor': st.one_of(st.none(), st.floats(0.05, 1.5)),
        'check_foci': st.sampled_from([None, True, False]),
        'seed': gen.SEED,
    })


def case_ellipse(spec, rec):
    from emg3d import maps
    h, origin = gen.build_widths(spec['grid'])
    rng = gen.rng_of(spec['seed'], 41)
    scale = spec['grid']['scale']
    x = origin[0]+np.cumsum(h[0])-h[0]/2
    y = origin[1]+np.cumsum(h[1])-h[1]/2
    ex = max(x[-1]-x[0], scale)
    ey = max(y[-1]-y[0], scale)

    def pt():
        return np.array([rng.uniform(x[0]-0.3*ex, x[-1]+0.3*ex),
                         rng.uniform(y[0]-0.3*ey, y[-1]+0.3*ey)])
    p0 = pt()
    g = spec['geom']
    p1 = pt()
    if g == 'same':
        p1 = p0.copy()
    elif g == 'dy0':
        p1[1] = p0[1]
    elif g == 'dx0':
        p1[0] = p0[0]
    elif g == 'far':
        p1 = p0 + 50*np.array([ex, ey])*rng.uniform(-1, 1, 2)
    if rng.random() < 0.3:      # a point exactly on a coordinate
        p0 = np.array([rng.choice(x), rng.choice(y)])
    radius = spec['radius']*scale
    kw = {'radius': radius}
    for k in ('factor', 'minor', 'check_foci'):
        if spec[k] is not None:
            kw[k] = spec[k]
    if spec['coo'] == 'vectors':
        X, Y = np.meshgrid(x, y, indexing='ij')
        coo = (x, y)
    else:
        X, Y = np.meshgrid(x, y, indexing='ij')
        X = X + rng.uniform(-0.3, 0.3, X.shape)*scale
        Y = Y + rng.uniform(-0.3, 0.3, Y.shape)*scale
        coo = (X, Y)
    ind = maps.ellipse_indices(coo, p0, p1, **kw)
    desc = f"p0={p0.tolist()} p1={p1.tolist()} opts={kw} coo={spec['coo']}"
    if ind.shape != X.shape or ind.dtype != bool:
        raise Violation("ellipse_shape", f"{ind.shape} {ind.dtype}; {desc}")

    # documented geometry (independent evaluation)
    factor = kw.get('factor', 1.0)
    minor = kw.get('minor', 1.0)
    foci = kw.get('check_foci', True)
    Q, border, a, b, c = ellipse_ref(X, Y, p0, p1, radius, factor, minor,
                                     foci)
    # exact membership away from the border
    exp = Q <= 1
    wrong = (ind != exp) & ~border
    if np.any(wrong):
        i = tuple(int(v[0]) for v in np.nonzero(wrong))
        raise Violation(
            f"ellipse_membership:check_foci={foci}",
            f"{int(wrong.sum())} of {ind.size} coordinates are on the wrong "
            f"side of the documented ellipse (a={a}, b={b}, c={c}); e.g. "
            f"({X[i]}, {Y[i]}): (xi/a)^2+(eta/b)^2={Q[i]} but flagged "
            f"{bool(ind[i])}; {desc}")

    # symmetry under exchanging the points
    ind2 = maps.ellipse_indices(coo, p1, p0, **kw)
    if np.any((ind != ind2) & ~border):
        raise Violation(f"ellipse_asymmetric:{g}",
                        f"{int(((ind != ind2) & ~border).sum())} points "
                        f"change when p0 and p1 are exchanged; {desc}")
    # regular-grid form == explicit 2D form
    if spec['coo'] == 'vectors':
        ind3 = maps.ellipse_indices((X, Y), p0, p1, **kw)
        if np.any((ind != ind3) & ~border):
            raise Violation("ellipse_vector_vs_2d", desc)

    # containment: everything within rho of p0 or p1 is inside
    if foci:
        rho = radius       # documented: circle of `radius` around the points
    else:
        # rhombus spanned by the semi-axes is inside the ellipse
        rho = (1-c/a)/np.sqrt(1/a**2+1/b**2)
    rho *= (1-1e-9)
    near = np.zeros(X.shape, bool)
    nearest = []
    for p in (p0, p1):
        dist = np.hypot(X-p[0], Y-p[1])
        near |= dist <= rho
        nearest.append(np.unravel_index(np.argmin(dist), dist.shape))
    if np.any(near & ~ind):
        i = tuple(int(v[0]) for v in np.nonzero(near & ~ind))
        raise Violation(
            f"ellipse_excludes_near_point:check_foci={foci}",
            f"coordinate ({X[i]}, {Y[i]}) is within {rho} of p0/p1 but not "
            f"flagged; a={a} b={b} c={c}; {desc}")
    nn = sum(bool(near[i]) for i in nearest)
    # which term of the documented formulas decides the axes
    a_by = 'factor*c' if factor*c > c+radius else 'c+radius'
    b_terms = {'minor*a': minor*a, 'radius': radius}
    if foci:
        b_terms['foci'] = float(np.sqrt(max(a*a-c*c, 0.0)))
    b_by = max(b_terms, key=b_terms.get)
    rec.cls(f"coo={spec['coo']}", f"geom={g}", f"check_foci={foci}",
            f"major_axis_from={a_by}", f"minor_axis_from={b_by}",
            f"minor_axis_longer={b > a}",
            f"points_within_20%_of_boundary={bool(np.any(np.abs(Q-1) < 0.2))}",
            f"points_in_rounding_band={bool(border.any())}",
            f"nearest_cells_inside_circle={nn}",
            f"selected={'none' if not ind.any() else 'all' if ind.all() else 'some'}")
    if nn > 0 and not ind.all():
        rec.nt([spec['grid']['seed'], spec['seed'], spec['coo'], g])
    rec.note({'n': [int(x.size), int(y.size)], 'selected': int(ind.sum()),
              'a': a, 'b': b, 'c': c})


# ----------------------------------------------------------------- gradient
def gradient_strategy():
    return st.fixed_dictionaries({
        'grid': gen.grid_spec([[5, 6, 7], [4, 5], [5, 6, 7, 5, 6, 7, 2, 3]],
                              kinds=('stretch', 'stretch', 'random',
                                     'uniform')),
        'column': st.sampled_from([False]*5+[True]),
        'freq': st.fixed_dictionaries({
            'f': gen.lgfloat(1e-2, 1e3), 'laplace': st.just(False),
            'lgind': st.floats(-3, 0.5)}),
        'nfreq': st.integers(1, 2),
        'layers': st.fixed_dictionaries({
            'mode': st.sampled_from(['random', 'random', 'palette']),
            'vti': st.booleans(),
            'mapping': st.sampled_from(gen.MAPPINGS),
            'decades': st.floats(0.3, 2.0),
            'air': st.sampled_from([False, False, True, False, False]),
            'mur': st.just(False), 'epsr': st.just(False),
            'seed': gen.SEED}),
        'sources': st.lists(src_spec(), min_size=1, max_size=2),
        'receivers': st.lists(rec_spec(), min_size=1, max_size=3),
        'sseed': gen.SEED,
        'obs': st.fixed_dictionaries({
            'mode': st.sampled_from(['full', 'full', 'gaps', 'gaps', 'none',
                                     'full', 'gaps', 'gaps', 'full',
                                     'allnan']),
            'nonfinite': st.just('nan'),
            'seed': gen.SEED}),
        'method': st.sampled_from(METHODS).flatmap(
            lambda m: method_spec(m, (None, False, True, False, None))),
        'noise': st.sampled_from(['re', 're+nf', 'nf']),
    })


def case_gradient(spec, rec):
    grid, scale, lay, model, sources, receivers, freqs = setup_problem(spec)
    if any(s[1]['type'].endswith('23') for s in sources):
        # known crash of this coordinate format is the forward check's
        # business; use the flat format of the same dipole here
        sspecs = [dict(ss, fmt23=False) for ss in spec['sources']]
        sources = build_sources(sspecs, grid, spec['sseed'])
        receivers = build_receivers(spec['receivers'], grid, spec['sseed'],
                                    sources)
    sh, sv, mur, epsr = lay
    nz = grid.shape_cells[2]
    shape = (len(sources), len(receivers), len(freqs))
    mapping = spec['layers']['mapping']
    vti = spec['layers']['vti']
    lo = layered_opts(spec['method'], scale)
    rng = gen.rng_of(spec['obs']['seed'], 500)

    # observed data: responses of a clearly different layered model
    fac = 10.0**(rng.choice([-1, 1], nz)*rng.uniform(0.08, 0.35, nz))
    sh_t = sh*fac
    sv_t = None if sv is None else sv*fac*10.0**rng.uniform(-0.2, 0.2, nz)
    model_t = build_model(grid, spec['layers'], sh_t, sv_t, None, None)
    sim_t = run_simulation(sources, receivers, freqs, None, model_t, lo)
    with quiet():
        sim_t.compute()
    obs = np.array(sim_t.data.synthetic.data)
    if not np.all(np.isfinite(obs)):
        raise Inconclusive("non-finite synthetic of the data model")
    amp = np.abs(obs)
    if amp.min() < 1e-100:
        # weights 1/std^2 would overflow
        raise Inconclusive("responses underflow")
    mode = spec['obs']['mode']
    nodata = mode in ('none', 'allnan')
    if mode == 'none':
        data = None
    elif mode == 'allnan':
        data = missing_values(spec['obs'], shape)
    else:
        _, fin = observed_data(spec['obs'], shape)
        data = np.where(fin, obs, np.nan+1j*np.nan)
    skw = {}
    if 're' in spec['noise']:
        skw['relative_error'] = float(rng.uniform(0.01, 0.1))
    if 'nf' in spec['noise']:
        skw['noise_floor'] = float(np.median(amp)*rng.uniform(0.01, 1.0))

    px0 = gen.map_forward(mapping, sh)
    pz0 = gen.map_forward(mapping, sv) if vti else None

    def make_model(px, pz):
        import emg3d
        shp = grid.shape_cells
        fx = np.ones(shp)*px[None, None, :]
        fz = None if pz is None else np.ones(shp)*pz[None, None, :]
        return emg3d.Model(grid, fx, None, fz, mapping=mapping)

    def misfit(px, pz):
        sim = run_simulation(sources, receivers, freqs, data, make_model(
            px, pz), lo, **skw)
        with quiet():
            return float(sim.misfit)

    sim = run_simulation(sources, receivers, freqs, data,
                         make_model(px0, pz0), lo, **skw)
    try:
        with quiet():
            g = np.array(sim.gradient)
            phi0 = float(sim.misfit)
    except ValueError as e:
        if lo.get('merge') and 'broadcast' in str(e):
            raise Violation(
                "exception:ValueError:gradient_with_merge",
                "layered gradient with layered_opts merge=True fails when "
                f"layers are actually merged: {e}; layers {sh.tolist()}")
        raise
    want = (2, *grid.shape_cells) if vti else tuple(grid.shape_cells)
    # (the returned array is squeezed: single-cell directions disappear)
    if [n for n in g.shape if n != 1] != [n for n in want if n != 1]:
        raise Violation("gradient_shape", f"{g.shape} vs {want}")
    if not np.all(np.isfinite(g)):
        raise Violation("gradient_nonfinite", "NaN/inf in layered gradient")
    G = g.reshape(-1, *grid.shape_cells).sum(axis=(1, 2))   # (ncomp, nz)

    # steps: 1e-3 relative in conductivity, expressed in the parametrisation
    def steps(p):
        if mapping in ('Conductivity', 'Resistivity'):
            return 1e-3*np.abs(p), 1e-4*np.abs(p)
        if mapping.startswith('Lg'):
            return np.full(p.size, 1e-3/np.log(10)), np.full(
                p.size, 1e-4/np.log(10))
        return np.full(p.size, 1e-3), np.full(p.size, 1e-4)

    # numerical noise of the misfit itself (filter sums of empymod; can reach
    # 1e-5 relative with very resistive layers or responses many skin depths
    # away): largest change under six perturbations of all layers by 1e-11
    # relative in conductivity, i.e. seven decades below the
    # implementation's step.  (Three samples were seen to underestimate the
    # noise five-fold: a 1.09e-2 discrepancy at an estimate of 2.3e-3.)
    nphi = 0.0
    if not nodata:
        for t in range(6):
            r2 = gen.rng_of(4711+t, 9)
            qx = px0 + r2.choice([-1, 1], nz)*steps(px0)[1]*1e-7
            qz = None if pz0 is None else \
                pz0 + r2.choice([-1, 1], nz)*steps(pz0)[1]*1e-7
            nphi = max(nphi, abs(misfit(qx, qz)-phi0))

    comps = [('x', px0)] + ([('z', pz0)] if vti else [])
    anysens = False
    for ci, (cn, p) in enumerate(comps):
        h, dimpl = steps(p)
        FD = np.zeros(nz)
        D2 = np.zeros(nz)
        for k in range(nz):
            pp, pm = p.copy(), p.copy()
            pp[k] += h[k]
            pm[k] -= h[k]
            hk = (pp[k]-pm[k])/2
            if cn == 'x':
                fp, fm = misfit(pp, pz0), misfit(pm, pz0)
            else:
                fp, fm = misfit(px0, pp), misfit(px0, pm)
            FD[k] = (fp-fm)/(2*hk)
            D2[k] = (fp-2*phi0+fm)/hk**2
        ref = np.abs(FD).max()
        if nodata:
            if ref != 0 or np.any(G[ci] != 0) or phi0 != 0:
                raise Violation("gradient_without_data",
                                f"no observed data but gradient {G[ci]}, "
                                f"misfit {phi0}, FD {FD}")
            continue
        if not np.isfinite(ref):
            raise Inconclusive("non-finite misfit of a perturbed model")
        # rounding floor of the central difference itself (a component the
        # data do not depend on, e.g. sigma_v for a pure TE configuration,
        # has FD = 0 and must have a zero gradient, too)
        floor = 1e-9*abs(phi0)/h
        sensitive = bool(np.abs(FD*h).max() > 1e-6*abs(phi0))
        trunc = 0.5*np.abs(D2)*dimpl
        if sensitive and trunc.max() > 2.5e-3*ref:
            raise Inconclusive("fd truncation of the implementation's "
                               "forward difference too large")
        if sensitive and (2*nphi/dimpl).max() > 1e-3*ref:
            raise Inconclusive("misfit numerically too noisy for a forward "
                               "difference with 1e-4 relative step")
        err = np.abs(G[ci]-FD)
        if np.any(err > 1e-2*ref+floor):
            k = int(np.argmax(err-floor))
            if lo.get('merge'):
                # same comparison without merging layers
                sim2 = run_simulation(sources, receivers, freqs, data,
                                      make_model(px0, pz0),
                                      dict(lo, merge=False), **skw)
                with quiet():
                    g2 = np.array(sim2.gradient)
                G2 = g2.reshape(-1, *grid.shape_cells).sum(axis=(1, 2))
                if not np.any(np.abs(G2[ci]-FD) > 1e-2*ref+floor):
                    raise Violation(
                        "layer_gradient_mismatch:merge",
                        f"with merge=True the layer sums are {G[ci].tolist()}"
                        f", with merge=False {G2[ci].tolist()}, central "
                        f"differences {FD.tolist()}; layers {sh.tolist()}")
            raise Violation(
                f"layer_gradient_mismatch:{'vti_'+cn if vti else 'iso'}",
                f"mapping {mapping} component {cn} layer {k}: sum of gradient {G[ci][k]:.6e} "
                f"vs central difference {FD[k]:.6e}; all layers G="
                f"{G[ci].tolist()} FD={FD.tolist()} (tolerance 1e-2*"
                f"{ref:.3e}); method {lo}")
        rec.cls(f"component_{cn}_sensitive={sensitive}")
        if sensitive:
            anysens = True
            rec.cls(f"relerr<{10.0**np.ceil(np.log10(max(err.max()/ref, 1e-9))):.0e}")
    rec.cls(f"mapping={mapping}", f"vti={vti}", f"obs={mode}",
            f"nz={nz if nz < 4 else '4+'}",
            f"nx*ny={'1' if grid.shape_cells[0]*grid.shape_cells[1] == 1 else '2+'}",
            f"method={spec['method']['method']}", f"noise={spec['noise']}",
            f"air={spec['layers']['air']}")
    for s in sources:
        rec.cls(f"src={s[1]['type']}")
    for r in receivers:
        rec.cls(f"rec={r[1]['type']}{'-rel' if r[1]['relative'] else '-abs'}")
    if not nodata and anysens:
        rec.nt([list(grid.shape_cells), spec['grid']['seed'],
                spec['layers']['seed'], spec['sseed'], spec['obs']['seed']])
    rec.note({'shape': list(grid.shape_cells), 'mapping': mapping,
              'vti': vti, 'G': G, 'misfit': phi0})


SUBS = {'forward': case_forward, 'extract': case_extract,
        'ellipse': case_ellipse, 'gradient': case_gradient}


FUZZ = {'extract': (extract_strategy(), case_extract),
        'ellipse': (ellipse_strategy(), case_ellipse)}


def run(ctx):
    ctx.regression(SUBS)
    ctx.explore('ellipse', ellipse_strategy(), case_ellipse,
                ctx.n(600, 4000))
    ctx.explore('extract', extract_strategy(), case_extract,
                ctx.n(1000, 5000))
    ctx.explore('forward', forward_strategy(), case_forward,
                ctx.n(150, 1200), shrink=False)
    ctx.explore('gradient', gradient_strategy(), case_gradient,
                ctx.n(40, 150), shrink=False)
    ctx.fuzz('extract', ctx.n(250, 5000))
    ctx.fuzz('ellipse', ctx.n(150, 3000))

"""C20 - emg3d.time.Fourier partitions and fills the required frequencies
consistently, and hands the filled spectrum over to the reference transform.

Two sub-checks sharing one oracle (`_oracle`):

* ``fill``    : object built by the constructor from generated inputs.
* ``setters`` : the same final settings reached through a generated order of
  the public setters (time, fmin, fmax, signal, input_freq / every_x_freq,
  fourier_arguments) starting from other initial settings.

The oracle derives everything from the INPUTS (never from the object): the
required frequencies through the checker's own ``empymod.utils.check_time``
call, the masks by direct comparison with fmin/fmax, the in-band values by
the checker's own cubic spline in log-frequency, and the time-domain result
by a direct ``empymod.model.tem`` call on the filled spectrum.
"""
import contextlib
import copy
import io
import pickle
import warnings

import numpy as np
from hypothesis import strategies as st
from scipy.interpolate import InterpolatedUnivariateSpline, PchipInterpolator

from vp import gen
from vp.framework import Inconclusive, Violation

RULE = ("Hypothesis draws: time vector (1..40 samples, log-spaced or "
        "irregular, within 1e-3..1e2 s), signal in {-1,0,1}, transform "
        "(DLF: six sine/cosine filters, by name or object, lagged / splined "
        "/ standard (single time only; standard DLF with several times is "
        "outside the property's quantifier), optional user 'kind'; FFTLog: "
        "pts_per_dec, add_dec, q; or all defaults), coarse option (none, "
        "every_x_freq 1..5, explicit ascending input_freq: strided/random "
        "subset of the required ones, own log-spaced or irregular vector "
        "inside/outside the required range, a copy of the required ones, "
        "and vectors of the SAME LENGTH as freq_required with other "
        "values), a band given by two positions in the coarse vector with "
        "each edge exactly on a coarse frequency / exactly on a required "
        "frequency / strictly between two, spectrum (mixtures of "
        "1/(1+i w tau), i.i.d. complex normal, purely real; amplitude "
        "1e-15..1e2).  Non-trivial = all three groups (extrapolated, "
        "in-band, zeroed) are non-empty; distinct by the whole drawn "
        "configuration except the spectrum.  Added after the blind-spot "
        "audit: times also within 1e-6..1e-3 s and 1e2..1e4 s; ft='fft' "
        "({}: 2048 LINEARLY spaced required frequencies; pts_per_dec; dfreq/"
        "nfreq) and the spellings 'DLF'/'Dlf'/'FFTLOG'/'FFTLog'; "
        "every_x_freq up to 80 (clipped to a quarter of the required "
        "ones); input_freq kinds 'mixed' (some computed points on required "
        "frequencies, some off them), 'equal_but_one' and 'near_equal' "
        "(freq_required with one / every entry changed by a relative "
        "1e-12..1e-3); constructor given input_freq AND every_x_freq; verb "
        "0..4 (stdout captured); fdata handed over as complex128, "
        "complex64, real float64, strided view (NaN in the gaps) or "
        "read-only array; optionally ANOTHER spectrum sent through "
        "interpolate / freq2time of the same object first; offset as "
        "float, int, float32, 1-element array or list; object examined as "
        "built, after copy.deepcopy or after a pickle round trip; repr().  "
        "setters: sequences of 1..10 setter calls drawn WITH replacement "
        "(same setter several times, A->B->A, transient fmin > fmax, None "
        "assigned to the coarse input that is not set), non-final "
        "occurrences take own drawn values; between the calls the object "
        "is optionally USED (all attributes read, a spectrum filled).")
ASSUMPTIONS = [
    "empymod.utils.check_time / empymod.model.tem are the reference "
    "(called by the checker itself with arguments built from the inputs); "
    "freq2time must return exactly what the transform it calls returns, "
    "and agree to 1e-10 (of the largest value) with the checker's direct "
    "tem call; a larger numerical difference is a violation only if the "
    "arguments recorded at empymod.model.tem are not equivalent to the "
    "input-derived ones (two tem evaluations agree only to rounding of a "
    "heavily cancelling sum; measured up to 2e-10 relative)",
    "scipy.interpolate.InterpolatedUnivariateSpline(k=3) in log-frequency "
    "is the documented in-band interpolant; agreement required to 1e-11 "
    "relative to the spectrum's maximum modulus",
    "extrapolation below fmin is checked through facts only (real part = "
    "lowest computed real part to 1e-12; |imag| non-decreasing in f, with "
    "the sign of and bounded by the lowest computed imaginary part, and "
    "|imag(f)| <= 3 (f/f0) |imag(f0)|, which every shape-preserving cubic "
    "Hermite interpolant anchored at (1e-100 Hz, 0) satisfies), not "
    "against a particular implementation of PCHIP",
    "setters sub-check: for a final signal of 0 reached through the signal "
    "setter both the sine and the cosine variant of the transform are "
    "accepted (either is a valid impulse-response transform); with repeated "
    "setters this holds whenever the signal was non-zero at any time of the "
    "object's life (empymod keeps a stored DLF 'kind' for signal 0)",
    "below fmin the imaginary part is additionally compared (own bucket "
    "extrapolation:not_documented_pchip, 1e-9 of the lowest computed "
    "imaginary part) with scipy's PchipInterpolator through (1e-100 Hz, 0) "
    "and ALL computed points, the mechanism the class docstring names",
    "fdata of another dtype / layout: every reference is computed from its "
    "exact complex128 value; the input buffer (and the gaps of a strided "
    "view) must be unchanged after interpolate and after freq2time",
    "transient states of a setter sequence are not judged (reads and the "
    "fill in between are wrapped; a transient combination the reference "
    "bookkeeping refuses is skipped, at verb=4 also one whose required "
    "frequencies form a matrix); only the mutual exclusion of input_freq / "
    "every_x_freq is asserted after every coarse setter (documented: "
    "setting one erases the other, constructor keeps input_freq; assigning "
    "None to one leaves the other)",
    "ft='fft' and upper-case spellings are accepted by "
    "empymod.utils.check_time, to which the class docstring defers; that a "
    "Fourier object can be deep-copied / pickled is NOT demanded (a "
    "failing copy falls back to the original object)",
]
SHARDS = {'quick': 1, 'thorough': 16}

FILTERS = ['key_81_2009', 'key_241_2009', 'key_601_2009', 'key_101_2012',
           'key_201_2012', 'wer_101_2020a']
SIG_SAME_SIZE = ("interpolate_passthrough_chosen_by_size:"
                 "input_freq_same_size_other_values")
SIG_SIGNAL_SETTER = "freq2time_mismatch:signal_setter_without_recheck"
SIG_COARSE = "setters:coarse_inputs_not_mutually_exclusive"
# largest observed (error / tolerance) per numerical comparison, for evidence
MARGIN = {}

# Generator dimensions added after the blind-spot audit.  Each can be switched
# off here (the drawn spec keys are then ignored, i.e. the old behaviour).
ENABLE_FFT = True          # ft='fft' (linear or log-spaced required freq.)
ENABLE_FT_CASE = True      # 'DLF' / 'FFTLog' spellings of ft
ENABLE_TIME_RANGES = True  # times of 1e-6..1e-3 s and 1e2..1e4 s
ENABLE_FDATA_AS = True     # complex64 / real / strided / read-only fdata
ENABLE_PRE_CALL = True     # another spectrum through the object first
ENABLE_PROVENANCE = True   # deep copy / pickle round trip before the oracle
ENABLE_BOTH_COARSE = True  # constructor given input_freq AND every_x_freq
ENABLE_OFF_AS = True       # offset as int / float32 / 1-element array, list
ENABLE_DOC_PCHIP = True    # oracle: the documented PCHIP below fmin

FT_MODES = (['lagged']*4 + ['splined']*4 + ['fftlog']*6 + ['standard']*2 +
            ['default']*2 + (['fft']*2 if ENABLE_FFT else []))
FT_CASES = ['lower']*5 + (['upper', 'mixed'] if ENABLE_FT_CASE else [])
FT_SPELL = {'upper': {'dlf': 'DLF', 'fftlog': 'FFTLOG', 'fft': 'FFT'},
            'mixed': {'dlf': 'Dlf', 'fftlog': 'FFTLog', 'fft': 'Fft'}}
FDATA_AS = ['c128']*4 + (['strided', 'strided', 'readonly', 'c64', 'f64_real']
                         if ENABLE_FDATA_AS else [])
PRE_CALL = ['none']*2 + (['interpolate', 'interpolate', 'freq2time']
                         if ENABLE_PRE_CALL else [])
OFF_AS = ['float']*4 + (['int', 'f32', 'arr1', 'list1'] if ENABLE_OFF_AS
                        else [])
PROVENANCE = ['fresh']*4 + (['deepcopy', 'pickle'] if ENABLE_PROVENANCE
                            else [])
TIME_RANGES = ['std']*6 + (['tem', 'long'] if ENABLE_TIME_RANGES else [])
PROPS = ['freq_required', 'freq_coarse', 'ifreq_compute', 'freq_compute',
         'ifreq_extrapolate', 'freq_extrapolate', 'ifreq_interpolate',
         'freq_interpolate', 'ft', 'ftarg', 'time', 'fmin', 'fmax', 'signal',
         'input_freq', 'every_x_freq']


def _margin(key, ratio):
    ratio = float(ratio)
    if ratio > MARGIN.get(key, 0.0):
        MARGIN[key] = ratio


# ------------------------------------------------------------ strategies
def _unit():
    return st.integers(0, 1000).map(lambda k: k/1000.0)


@st.composite
def time_spec(draw):
    n = draw(st.one_of(st.just(1), st.integers(2, 40), st.integers(2, 40)))
    rg = draw(st.sampled_from(TIME_RANGES))
    if rg == 'tem':                     # land-TEM scale, 1e-6..1e-3 s
        a, cap = draw(st.floats(-6.0, -4.0)), -3.0
    elif rg == 'long':                  # 1e2..1e4 s
        a, cap = draw(st.floats(2.0, 3.5)), 4.0
    else:
        a, cap = draw(st.floats(-3.0, 1.5)), 2.0
    b = a if n == 1 else a + draw(st.floats(0.05, 1.0))*(cap - a)
    return {'n': n, 'a': a, 'b': b, 'range': rg,
            'kind': draw(st.sampled_from(['log', 'irregular'])),
            'seed': draw(gen.SEED)}


@st.composite
def ft_spec(draw, tspec):
    mode = draw(st.sampled_from(FT_MODES))
    if mode == 'standard' and tspec['n'] > 1:
        mode = 'lagged'
    case = draw(st.sampled_from(FT_CASES))
    if mode == 'default':
        return {'mode': mode, 'ft': 'dlf', 'pass_ft': draw(st.booleans()),
                'case': case}
    if mode == 'fft':
        # required frequencies k*dfreq (k=1..nfreq), or log-spaced between
        # dfreq and nfreq*dfreq if pts_per_dec is given (empymod check_time)
        var = draw(st.sampled_from(['empty', 'ppd', 'dfreq_nfreq']))
        return {'mode': mode, 'ft': 'fft', 'var': var, 'case': case,
                'ppd': draw(st.integers(3, 10)),
                'lgdfreq': draw(st.floats(-4.0, -1.0)),
                'nfreq': draw(st.sampled_from([64, 100, 256, 500, 1024]))}
    if mode == 'fftlog':
        left = draw(st.floats(-3.0, 0.0))
        right = draw(st.floats(0.0, 2.0))
        total = (tspec['b'] - tspec['a']) + right - left
        if total < 1.05:
            left -= 1.1
            total += 1.1
        partial = draw(st.sampled_from(['all', 'all', 'ppd_only', 'none']))
        if partial != 'all':            # add_dec left at its default [-2, 1]
            total = (tspec['b'] - tspec['a']) + 3.0
        dec = max(1, int(total - 0.01))
        ppd = max(draw(st.integers(1, 20)), -(-8//dec))
        q = draw(st.one_of(st.just(0.0), st.floats(-1.0, 1.0)))
        return {'mode': mode, 'ft': 'fftlog', 'ppd': ppd, 'case': case,
                'add_dec': [left, right], 'q': q, 'partial': partial}
    out = {'mode': mode, 'ft': 'dlf', 'case': case,
           'filter': draw(st.sampled_from(FILTERS)),
           'as_object': draw(st.booleans()),
           'kind': draw(st.sampled_from([None, None, None, 'sin', 'cos']))}
    if mode == 'lagged':
        out['ppd'] = draw(st.sampled_from([-1, -1, -1.0, -2.5]))
    elif mode == 'splined':
        out['ppd'] = draw(st.one_of(st.integers(2, 30), st.floats(2.0, 30.0)))
    else:
        out['ppd'] = 0
    return out


def coarse_spec():
    inp = st.fixed_dictionaries({
        'kind': st.sampled_from([
            'subset', 'subset', 'subset', 'subset_random', 'subset_random',
            'logspace', 'logspace', 'logspace', 'logspace', 'irregular',
            'irregular', 'irregular', 'equal_required', 'equal_required',
            'same_len_logspace', 'same_len_scaled', 'same_len_jitter',
            'mixed', 'mixed', 'mixed', 'equal_but_one', 'equal_but_one',
            'near_equal']),
        'n': st.integers(6, 80), 'u0': _unit(), 'u1': _unit(),
        'step': st.integers(2, 6), 'off': st.integers(0, 5),
        'p': st.floats(0.2, 0.9), 'shift': st.floats(-0.3, 0.3),
        'lgeps': st.floats(-12.0, -3.0), 'uj': _unit(),
        'seed': gen.SEED})
    return st.fixed_dictionaries({
        'mode': st.sampled_from(['none', 'every', 'every', 'input', 'input',
                                 'input', 'input'] +
                                (['both'] if ENABLE_BOTH_COARSE else [])),
        'every': st.one_of(st.integers(1, 5), st.integers(1, 5),
                           st.integers(6, 80)),
        'inp': inp})


EDGE = st.sampled_from(['on_coarse', 'on_required', 'between'])


def band_spec():
    return st.fixed_dictionaries({
        'uk': _unit(), 'ui': _unit(), 'lo': EDGE, 'hi': EDGE,
        'pos': st.sampled_from(['low', 'high', 'mid', 'mid', 'mid', 'mid',
                                'mid', 'mid', 'mid', 'mid']),
        'tlo': st.floats(0.05, 0.95), 'thi': st.floats(0.05, 0.95)})


def spectrum_spec():
    return st.fixed_dictionaries({
        'kind': st.sampled_from(['analytic', 'analytic', 'random', 'random',
                                 'real']),
        'lgamp': st.floats(-15.0, 2.0), 'seed': gen.SEED,
        # how fdata is handed over, and whether ANOTHER spectrum goes through
        # the same object first (interpolate or freq2time)
        'as': st.sampled_from(FDATA_AS),
        'pre': st.sampled_from(PRE_CALL),
        'pre_kind': st.sampled_from(['analytic', 'random', 'real']),
        'pre_lgamp': st.floats(-15.0, 2.0)})


@st.composite
def config(draw):
    t = draw(time_spec())
    return {'time': t, 'signal': draw(st.sampled_from([-1, 0, 1])),
            'ft': draw(ft_spec(t)), 'coarse': draw(coarse_spec()),
            'band': draw(band_spec()), 'spectrum': draw(spectrum_spec()),
            'off': draw(gen.lgfloat(1.0, 1e4)),
            'off_as': draw(st.sampled_from(OFF_AS)),
            'prov': draw(st.sampled_from(PROVENANCE)),
            'verb': draw(st.sampled_from([0, 0, 0, 1, 2, 3, 3, 4])),
            'repr': draw(st.booleans())}


OPS = ['time', 'signal', 'ft', 'fmin', 'fmax', 'coarse']


@st.composite
def setter_spec(draw):
    final = draw(config())
    t0 = draw(time_spec())
    init = {'time': t0, 'signal': draw(st.sampled_from([-1, 0, 1])),
            'ft': draw(ft_spec(t0)),
            'fmin': draw(gen.lgfloat(1e-4, 1.0)),
            'fmax_fac': draw(gen.lgfloat(1.5, 1e4)),
            'coarse': draw(st.sampled_from(
                ['none', 'every', 'input'] +
                (['both'] if ENABLE_BOTH_COARSE else []))),
            'every': draw(st.integers(1, 5)),
            'n_input': draw(st.integers(4, 40))}
    if draw(st.booleans()):
        ops = draw(st.permutations(OPS))[:draw(st.integers(1, 6))]
    else:       # with replacement: A->B->A, the same setter several times
        ops = draw(st.lists(st.sampled_from(OPS), min_size=2, max_size=10))
    # values for the occurrences of a setter that are not its last one (the
    # last occurrence sets the final value)
    mid = []
    for i, op in enumerate(ops):
        if op not in ops[i+1:]:
            mid.append(None)
        elif op == 'time':
            mid.append({'time': draw(time_spec())})
        elif op == 'signal':
            mid.append({'signal': draw(st.sampled_from([-1, 0, 1]))})
        elif op == 'ft':
            mid.append({'ft': draw(ft_spec(final['time']))})
        elif op in ('fmin', 'fmax'):
            mid.append({'v': draw(gen.lgfloat(1e-6, 1e5))})
        else:
            mid.append({'coarse': draw(st.sampled_from(['none', 'none',
                                                        'every', 'input'])),
                        'every': draw(st.integers(1, 5)),
                        'n_input': draw(st.integers(4, 40)),
                        'which': draw(st.sampled_from(['set', 'other',
                                                       'both']))})
    touch = draw(st.lists(st.booleans(), min_size=len(ops) + 1,
                          max_size=len(ops) + 1))
    return {'final': final, 'init': init, 'ops': ops, 'mid': mid,
            'touch': touch,
            'none_which': draw(st.sampled_from(['set', 'set', 'both'])),
            'verb': draw(st.sampled_from([0, 0, 1, 2, 3, 3, 4]))}


# ------------------------------------------------------- realise a spec
def build_time(ts):
    if ts['n'] == 1:
        return np.array([10.0**ts['a']])
    if ts['kind'] == 'log':
        return np.logspace(ts['a'], ts['b'], ts['n'])
    rng = gen.rng_of(ts['seed'], 21)
    inner = np.sort(rng.uniform(ts['a'], ts['b'], ts['n'] - 2))
    lg = np.r_[ts['a'], inner, ts['b']]
    t = 10.0**lg
    # strictly ascending (ties have probability zero; guard anyway)
    if np.any(np.diff(t) <= 0):
        t = np.unique(t)
    return t


def build_ft(fs):
    """-> (ft or None, ftarg or None) exactly as handed to emg3d."""
    import empymod
    ft, ftarg = _build_ft(fs, empymod)
    case = fs.get('case', 'lower') if ENABLE_FT_CASE else 'lower'
    if ft is not None and case != 'lower':
        ft = FT_SPELL[case][ft]
    return ft, ftarg


def _build_ft(fs, empymod):
    if fs['mode'] == 'default':
        return ('dlf' if fs['pass_ft'] else None), None
    if fs['ft'] == 'fft':
        if fs['var'] == 'empty':
            return 'fft', {}
        if fs['var'] == 'ppd':
            return 'fft', {'pts_per_dec': int(fs['ppd'])}
        return 'fft', {'dfreq': float(10.0**fs['lgdfreq']),
                       'nfreq': int(fs['nfreq'])}
    if fs['ft'] == 'fftlog':
        if fs['partial'] == 'none':
            return 'fftlog', {}
        ftarg = {'pts_per_dec': int(fs['ppd'])}
        if fs['partial'] == 'all':
            ftarg['add_dec'] = [float(fs['add_dec'][0]),
                                float(fs['add_dec'][1])]
            ftarg['q'] = float(fs['q'])
        return 'fftlog', ftarg
    filt = fs['filter']
    if fs['as_object']:
        filt = getattr(empymod.filters.Fourier(), filt)
    ftarg = {'dlf': filt, 'pts_per_dec': fs['ppd']}
    if fs['kind'] is not None:
        ftarg['kind'] = fs['kind']
    return 'dlf', ftarg


def own_check_time(time, signal, ft, ftarg):
    """The checker's own call of the reference bookkeeping."""
    import empymod
    with warnings.catch_warnings():
        warnings.simplefilter('ignore')
        t, f, ft2, targ = empymod.utils.check_time(
            time, signal, 'dlf' if ft is None else ft,
            {} if ftarg is None else ftarg, 0)
    return t, f, ft2, targ


def build_input_freq(cs, req):
    """Explicit ascending input_freq for the required frequencies `req`."""
    R = req.size
    rng = gen.rng_of(cs['seed'], 22)
    L0, L1 = np.log10(req[0]), np.log10(req[-1])
    span = L1 - L0
    kind = cs['kind']
    if kind == 'subset':
        step = max(2, min(cs['step'], R//4))
        return req[cs['off'] % step::step].copy()
    if kind == 'subset_random':
        k = min(R, max(6, int(cs['p']*R)))
        return req[np.sort(rng.choice(R, size=k, replace=False))].copy()
    if kind == 'equal_required':
        return req.copy()
    if kind == 'same_len_scaled':
        s = cs['shift'] if abs(cs['shift']) > 1e-3 else 0.01
        return req*10.0**s
    if kind in ('equal_but_one', 'near_equal'):
        # freq_required with one entry / all entries changed by a relative
        # 1e-12..1e-3 (at most a tenth of the smallest relative spacing, so
        # the vector stays strictly ascending)
        eps = min(10.0**cs.get('lgeps', -6.0),
                  0.1*float(np.min(np.diff(req)/req[1:])))
        out = req.copy()
        if kind == 'near_equal':
            out *= 1.0 + eps*rng.uniform(-1.0, 1.0, R)
        else:
            j = min(int(cs.get('uj', 0.5)*R), R - 1)
            out[j] *= 1.0 + eps*float(rng.choice([-1.0, 1.0]))
        if np.array_equal(out, req) or np.any(np.diff(out) <= 0):
            raise Inconclusive("perturbed copy of freq_required not usable")
        return out
    if kind == 'same_len_jitter':
        lg = np.log10(req)
        d = np.diff(lg)
        loc = np.minimum(np.r_[d[0], d], np.r_[d, d[-1]])
        return 10.0**(lg + rng.uniform(-0.3, 0.3, R)*loc)
    if kind == 'same_len_logspace':
        lo = L0 + cs['u0']*0.5*span
        hi = L1 - cs['u1']*0.5*span
        if hi - lo < 0.5:
            hi = lo + 0.5
        return np.logspace(lo, hi, R)
    lo = L0 - 1.0 + cs['u0']*(span + 2.0)
    hi = L0 - 1.0 + cs['u1']*(span + 2.0)
    lo, hi = min(lo, hi), max(lo, hi)
    if hi - lo < 0.5:
        hi = lo + 0.5
    if kind == 'logspace':
        return np.logspace(lo, hi, cs['n'])
    if kind == 'mixed':
        # some computed points ON required frequencies, others off them:
        # a random subset of the required ones united with an own log-spaced
        # vector, minus the own points closer than a quarter of the local
        # spacing to a chosen required one (no nearly coincident knots)
        k = min(R, max(3, int(0.5*cs['p']*R)))
        sub = req[np.sort(rng.choice(R, size=k, replace=False))]
        own = np.logspace(lo, hi, cs['n'])
        ls, lo_ = np.log10(sub), np.log10(own)
        i = np.clip(np.searchsorted(ls, lo_), 1, k - 1)
        gap = ls[i] - ls[i-1]
        dist = np.minimum(np.abs(lo_ - ls[i-1]), np.abs(lo_ - ls[i]))
        return np.unique(np.r_[sub, own[dist > 0.25*gap]])
    # irregular: random positive gaps with ratio <= 100
    gaps = 10.0**rng.uniform(-2.0, 0.0, cs['n'] - 1)
    lg = lo + np.r_[0.0, np.cumsum(gaps)]/gaps.sum()*(hi - lo)
    return 10.0**lg


def build_coarse(cs, req):
    """-> (mode, every_x_freq or None, input_freq or None, coarse, label)."""
    if cs['mode'] == 'none':
        return 'none', None, None, req, 'none'
    if cs['mode'] == 'every':
        ev = max(1, min(cs['every'], req.size//4))
        return 'every', ev, None, req[::ev], f'every={ev}'
    inp = build_input_freq(cs['inp'], req)
    return 'input', None, inp, inp, 'input:' + cs['inp']['kind']


def ctor_every(cs, req):
    """every_x_freq handed to the constructor TOGETHER with input_freq (mode
    'both'; documented outcome: input_freq is kept, every_x_freq reset)."""
    if cs['mode'] == 'both' and ENABLE_BOTH_COARSE:
        return max(1, min(cs['every'], req.size//4))
    return None


def build_band(bs, coarse, req, kmin):
    """fmin < fmax such that coarse[i0..i1] (>= kmin entries) is computed."""
    m = coarse.size
    k = min(m, kmin + int(bs['uk']**1.5*(m - kmin + 0.999)))
    if bs['pos'] == 'low':
        i0 = 0
    elif bs['pos'] == 'high' or m - k < 2:
        i0 = m - k
    else:
        i0 = 1 + min(int(bs['ui']*(m - k - 1)), m - k - 2)
    i1 = i0 + k - 1
    lc = np.log(coarse)
    lo_mode, hi_mode = bs['lo'], bs['hi']

    fmin = None
    if lo_mode == 'on_required':
        c = req[req <= coarse[i0]]
        if i0 > 0:
            c = c[c > coarse[i0-1]]
        if c.size:
            fmin = float(c[min(int(bs['tlo']*c.size), c.size-1)])
        else:
            lo_mode = 'between'
    if lo_mode == 'on_coarse':
        fmin = float(coarse[i0])
    elif lo_mode == 'between':
        if i0 > 0:
            fmin = float(np.exp(lc[i0-1] + bs['tlo']*(lc[i0] - lc[i0-1])))
            if not coarse[i0-1] < fmin <= coarse[i0]:
                fmin = float(coarse[i0])
                lo_mode = 'on_coarse'
        else:
            fmin = float(coarse[0]*10.0**(-bs['tlo']))

    fmax = None
    if hi_mode == 'on_required':
        c = req[req >= coarse[i1]]
        if i1 < m - 1:
            c = c[c < coarse[i1+1]]
        else:
            c = c[c <= coarse[i1]*10.0]
        if c.size:
            fmax = float(c[min(int(bs['thi']*c.size), c.size-1)])
        else:
            hi_mode = 'between'
    if hi_mode == 'on_coarse':
        fmax = float(coarse[i1])
    if hi_mode == 'between' or not fmin < fmax:
        hi_mode = 'between'
        if i1 < m - 1:
            fmax = float(np.exp(lc[i1] + bs['thi']*(lc[i1+1] - lc[i1])))
            if not coarse[i1] <= fmax < coarse[i1+1]:
                fmax = float(coarse[i1])
                hi_mode = 'on_coarse'
        else:
            fmax = float(coarse[-1]*10.0**bs['thi'])
    if not fmin < fmax:
        raise Inconclusive("could not build a band with fmin < fmax")
    return fmin, fmax, lo_mode, hi_mode


def spectrum(ss, f):
    """Complex spectrum at the frequencies f (deterministic in ss)."""
    rng = gen.rng_of(ss['seed'], 23)
    amp = 10.0**ss['lgamp']
    if ss['kind'] == 'random':
        return amp*(rng.standard_normal(f.size) +
                    1j*rng.standard_normal(f.size))
    nk = int(rng.integers(1, 4))
    a = rng.choice([-1.0, 1.0], nk)*10.0**rng.uniform(-1, 1, nk)
    tau = 10.0**rng.uniform(-4, 3, nk)
    out = np.zeros(f.size, dtype=complex)
    for ak, tk in zip(a, tau):
        out += ak/(1.0 + 2j*np.pi*f*tk)
    out *= amp
    if ss['kind'] == 'real':
        out = out.real + 0j
    return out


def realise(cfg):
    """All inputs of the final configuration, from the spec alone."""
    time = build_time(cfg['time'])
    ft, ftarg = build_ft(cfg['ft'])
    signal = cfg['signal']
    _, req, _, _ = own_check_time(time, signal, ft, ftarg)
    req = np.asarray(req)
    if req.ndim != 1 or req.size < 8 or np.any(np.diff(req) <= 0):
        raise Inconclusive("required frequencies not 1-D ascending, >= 8")
    cmode, every, inp, coarse, clabel = build_coarse(cfg['coarse'], req)
    is_req = coarse.size == req.size and bool(np.array_equal(coarse, req))
    kmin = 1 if is_req else 4
    if coarse.size < kmin:
        raise Inconclusive("coarse vector too short for a cubic spline")
    fmin, fmax, lo_mode, hi_mode = build_band(cfg['band'], coarse, req, kmin)
    return {'ctor_every': ctor_every(cfg['coarse'], req),
            'off_as': cfg.get('off_as', 'float') if ENABLE_OFF_AS else 'float',
            'repr': cfg.get('repr', False),
            'time': time, 'signal': signal, 'ft': ft, 'ftarg': ftarg,
            'req': req, 'cmode': cmode, 'every': every, 'inp': inp,
            'coarse': coarse, 'clabel': clabel, 'is_req': is_req,
            'fmin': fmin, 'fmax': fmax, 'lo_mode': lo_mode,
            'hi_mode': hi_mode, 'off': cfg['off'], 'kmin': kmin}


def _kwargs(X):
    kw = {}
    if X['ft'] is not None:
        kw['ft'] = X['ft']
    if X['ftarg'] is not None:
        kw['ftarg'] = X['ftarg']
    return kw


def _describe(X):
    ftarg = None
    if X['ftarg'] is not None:
        ftarg = {k: (getattr(v, 'name', v)) for k, v in X['ftarg'].items()}
    return {'time': X['time'], 'fmin': X['fmin'], 'fmax': X['fmax'],
            'signal': X['signal'], 'ft': X['ft'], 'ftarg': ftarg,
            'every_x_freq': X['every'], 'input_freq': X['inp']}


# ---------------------------------------------------------------- oracle
def _eq(a, b):
    a = np.asarray(a)
    b = np.asarray(b)
    return a.shape == b.shape and bool(np.array_equal(a, b))


def _oracle(F, X, sspec, rec, allowed_signals=None, mismatch_sig=None):
    """Check object F against the inputs X (see module docstring)."""
    import empymod
    time, signal = X['time'], X['signal']
    fmin, fmax, req, coarse = X['fmin'], X['fmax'], X['req'], X['coarse']
    t_ck, _, ft_ck, ftarg_ck = own_check_time(time, signal, X['ft'],
                                              X['ftarg'])
    det = {'inputs': _describe(X)}
    same_size_differs = (not X['is_req']) and coarse.size == req.size
    ftk = ft_ck

    # ---- A. bookkeeping ------------------------------------------------
    if not _eq(F.freq_required, req):
        raise Violation(f"freq_required_differs_from_check_time:{ftk}",
                        "freq_required is not what empymod.utils.check_time "
                        "returns for the inputs", det)
    if not _eq(F.freq_coarse, coarse):
        raise Violation(f"freq_coarse:{X['cmode']}",
                        "freq_coarse is not the documented coarse vector "
                        f"({X['clabel']})", det)
    ext = req < fmin
    itp = (req >= fmin) & (req <= fmax)
    abv = req > fmax
    E = np.asarray(F.ifreq_extrapolate)
    In = np.asarray(F.ifreq_interpolate)
    if E.dtype != bool or In.dtype != bool or E.shape != req.shape or \
            In.shape != req.shape:
        raise Violation("partition:index_sets_not_boolean_masks",
                        f"{E.dtype}{E.shape} / {In.dtype}{In.shape}", det)
    edge = []
    if np.any(req == fmin):
        edge.append('fmin_on_required')
    if np.any(req == fmax):
        edge.append('fmax_on_required')
    feat = '+'.join(edge) if edge else 'edges_between'
    if np.any(E & In):
        j = int(np.flatnonzero(E & In)[0])
        raise Violation(f"partition:overlap:{feat}",
                        f"required frequency {req[j]!r} is both extrapolated "
                        f"and interpolated (fmin={fmin!r})", det)
    if not _eq(~(E | In), abv):
        j = int(np.flatnonzero(~(E | In) != abv)[0])
        raise Violation(f"partition:not_exhaustive:{feat}",
                        f"required frequency {req[j]!r}: member of neither "
                        f"set although <= fmax, or of one although > fmax "
                        f"(fmin={fmin!r}, fmax={fmax!r})", det)
    if not _eq(E, ext):
        raise Violation(f"partition:extrapolate_set:{feat}",
                        "ifreq_extrapolate != (freq_required < fmin)", det)
    if not _eq(In, itp):
        raise Violation(f"partition:interpolate_set:{feat}",
                        "ifreq_interpolate != (fmin <= freq_required <= fmax)",
                        det)
    if not _eq(F.freq_extrapolate, req[ext]) or \
            not _eq(F.freq_interpolate, req[itp]):
        raise Violation("partition:freq_vectors",
                        "freq_extrapolate / freq_interpolate are not "
                        "freq_required restricted to their index sets", det)
    cm = (coarse >= fmin) & (coarse <= fmax)
    fc = coarse[cm]
    if fc.size < X['kmin']:
        raise Inconclusive("band construction left too few frequencies")
    got_fc = np.asarray(F.freq_compute)
    cedge = []
    if np.any(coarse == fmin):
        cedge.append('fmin_on_coarse')
    if np.any(coarse == fmax):
        cedge.append('fmax_on_coarse')
    cfeat = '+'.join(cedge) if cedge else 'edges_between'
    if got_fc.size and (got_fc.min() < fmin or got_fc.max() > fmax):
        raise Violation(f"band:compute_outside_band:{cfeat}",
                        f"freq_compute range [{got_fc.min()!r}, "
                        f"{got_fc.max()!r}] not within [{fmin!r}, {fmax!r}]",
                        det)
    if not _eq(got_fc, fc) or not _eq(F.ifreq_compute, cm):
        raise Violation(f"band:compute_not_coarse_restricted:{cfeat}",
                        f"freq_compute has {got_fc.size} entries, "
                        f"freq_coarse within the band has {fc.size}", det)

    if X.get('repr'):
        if not isinstance(repr(F), str):
            raise Violation("repr_not_a_string", "", det)
        rec.cls('repr=called')

    # ---- B. interpolate --------------------------------------------------
    # fdata_in is what is handed to the object; fdata its exact complex128
    # value, which all references below are computed from.
    fdata_in, how = hand_over(spectrum(sspec, fc), sspec)
    fdata = np.array(fdata_in, dtype=np.complex128)
    scale = float(np.max(np.abs(fdata)))
    keep = fdata_in.copy()
    off = offset(X)
    pre = sspec.get('pre', 'none') if ENABLE_PRE_CALL else 'none'
    try:
        if pre != 'none':
            # another spectrum goes through the same object first: nothing of
            # it may survive in the results for fdata
            other, _ = hand_over(spectrum(
                {'kind': sspec.get('pre_kind', 'random'),
                 'lgamp': sspec.get('pre_lgamp', 0.0),
                 'seed': (int(sspec['seed']) + 1) % 2**32}, fc), sspec)
            F.interpolate(other)
        out = F.interpolate(fdata_in)
    except Exception as e:
        if same_size_differs:
            raise Violation(
                SIG_SAME_SIZE,
                f"interpolate raised {type(e).__name__}: {str(e)[:200]} "
                f"(input_freq has {coarse.size} entries like freq_required "
                f"but other values; {fc.size} computed vs {int(itp.sum())} "
                "in-band required frequencies)", det) from e
        raise
    if pre == 'freq2time':
        F.freq2time(other, off)
        if not _eq(F.interpolate(fdata_in), out):
            raise Violation("interpolate:not_reproducible",
                            "the same fdata filled differently after another "
                            "spectrum went through freq2time", det)
    if not _same_buffer(fdata_in, keep):
        raise Violation("interpolate:modifies_input", "fdata changed", det)
    rec.cls(f"fdata_as={how}", f"pre_call={pre}")
    out = np.asarray(out)
    if out.shape != req.shape or out.dtype != np.complex128:
        raise Violation("interpolate:shape_or_dtype",
                        f"{out.dtype}{out.shape} for {req.size} required "
                        "frequencies", det)
    if not np.all(np.isfinite(out)):
        raise Violation("interpolate:not_finite", "NaN/inf in filled "
                        "spectrum for finite input", det)
    if np.any(out[abv] != 0):
        raise Violation(f"above_fmax_not_zero:{feat}",
                        "non-zero value at a required frequency > fmax", det)
    fi = req[itp]
    oi = out[itp]
    if X['is_req']:
        # every in-band required frequency is a computed one
        if not _eq(oi, fdata):
            raise Violation(f"passthrough_not_exact:{X['cmode']}",
                            "freq_coarse equals freq_required but supplied "
                            "data are not returned unchanged", det)
        rec.cls('inband=passthrough')
    else:
        problem = None
        if fi.size:
            idx = np.clip(np.searchsorted(fc, fi), 0, fc.size-1)
            hit = fc[idx] == fi
            if hit.any():
                rec.cls('inband=has_coincident')
                d = np.abs(oi[hit] - fdata[idx[hit]])
                if not np.any(d > 1e-10*scale):
                    _margin('coincident', np.max(d)/(1e-10*scale))
                if np.any(d > 1e-10*scale):
                    j = int(np.argmax(d))
                    problem = (
                        "passthrough_coincident",
                        f"required frequency {fi[hit][j]!r} is a computed "
                        f"one; supplied {fdata[idx[hit]][j]!r}, returned "
                        f"{oi[hit][j]!r}")
            lf, li = np.log(fc), np.log(fi)
            ref = (InterpolatedUnivariateSpline(lf, fdata.real)(li) +
                   1j*InterpolatedUnivariateSpline(lf, fdata.imag)(li))
            d = np.abs(oi - ref)
            tol = 1e-11*np.maximum(scale, np.abs(ref))
            if not np.any(d > tol):
                _margin('inband_spline', np.max(d/tol))
            if problem is None and np.any(d > tol):
                j = int(np.argmax(d/tol))
                problem = (
                    "inband_not_cubic_spline_in_log_f",
                    f"at {fi[j]!r} Hz: returned {oi[j]!r}, cubic spline in "
                    f"log f through the {fc.size} computed points gives "
                    f"{ref[j]!r} (max |data| {scale:.3e})")
            if np.any((fi < fc[0]) | (fi > fc[-1])):
                rec.cls('inband=beyond_computed_range')
            if np.any(~hit):
                rec.cls('inband=interpolated')
            if hit.any() and np.any(~hit) and \
                    not np.all(np.isin(fc, req)) and np.any(np.isin(fc, req)):
                rec.cls('computed=some_on_required_some_off')
        else:
            rec.cls('inband=empty')
        if problem is not None:
            if same_size_differs:
                raise Violation(
                    SIG_SAME_SIZE,
                    f"{problem[0]}: {problem[1]} (input_freq has "
                    f"{coarse.size} entries like freq_required but other "
                    "values; data were assigned, not interpolated)", det)
            raise Violation(f"{problem[0]}:{X['cmode']}", problem[1], det)
    if ext.any():
        re0, im0 = float(fdata[0].real), float(fdata[0].imag)
        er, ei = out.real[ext], out.imag[ext]
        d = np.abs(er - re0)
        _margin('extrap_real', np.max(d)/(1e-12*abs(re0) + 1e-300))
        if np.any(d > 1e-12*abs(re0) + 1e-300):
            j = int(np.argmax(d))
            raise Violation(
                "extrapolation:real_part_not_lowest_computed",
                f"at {req[ext][j]!r} Hz real part {er[j]!r}, lowest computed "
                f"frequency {fc[0]!r} Hz has {re0!r}", det)
        sgn = 1.0 if im0 >= 0 else -1.0
        tiny = 1e-99
        if np.any(ei*sgn < -tiny):
            raise Violation("extrapolation:imag_sign",
                            f"imaginary part changes sign below fmin "
                            f"(lowest computed {im0!r})", det)
        if np.any(np.abs(ei) > abs(im0)*(1+1e-12) + tiny):
            raise Violation("extrapolation:imag_exceeds_lowest_computed",
                            f"max |imag| {np.abs(ei).max()!r} > {abs(im0)!r}",
                            det)
        if np.any(np.diff(np.abs(ei)) < -(1e-12*abs(im0) + tiny)):
            raise Violation("extrapolation:imag_not_monotone",
                            "|imag| is not non-decreasing in frequency below "
                            "fmin", det)
        # "to zero": any monotone cubic Hermite piece from (1e-100 Hz, 0)
        # to (f0, im0) with slopes limited to three times the secant (the
        # documented PCHIP) stays below (1-(1-t)^3)|im0| <= 3t|im0|, t=f/f0.
        bound = 3.0*(req[ext]/fc[0])*abs(im0)*(1+1e-6) + tiny
        _margin('extrap_imag_decay', np.max(np.abs(ei)/bound))
        if np.any(np.abs(ei) > bound):
            j = int(np.argmax(np.abs(ei)/bound))
            raise Violation(
                "extrapolation:imag_not_shrinking_to_zero",
                f"at {req[ext][j]!r} Hz |imag| = {abs(ei[j])!r}; lowest "
                f"computed frequency {fc[0]!r} Hz has {im0!r}: no decay "
                "towards zero frequency", det)
        if ENABLE_DOC_PCHIP:
            # the mechanism the class docstring names: PCHIP through
            # (1e-100 Hz, re0 + 0j) and ALL computed points
            want = PchipInterpolator(np.r_[1e-100, fc],
                                     np.r_[0.0, fdata.imag])(req[ext])
            d = np.abs(ei - want)
            tol = 1e-9*abs(im0) + tiny
            _margin('extrap_documented_pchip', np.max(d)/tol)
            if np.any(d > tol):
                j = int(np.argmax(d))
                raise Violation(
                    "extrapolation:not_documented_pchip",
                    f"at {req[ext][j]!r} Hz imaginary part {ei[j]!r}; PCHIP "
                    f"through (1e-100 Hz, 0) and the {fc.size} computed "
                    f"points gives {want[j]!r} (lowest computed {im0!r})",
                    det)

    # ---- C. freq2time ----------------------------------------------------
    # The result must be what the reference transform returns for the filled
    # spectrum with arguments derived from the INPUTS.  Two evaluations of
    # empymod.model.tem agree only to rounding, and the DLF sum is heavily
    # cancelling (the filter arrays of a fresh filter are strided views, those
    # of a deep-copied one contiguous: other summation order), so a numerical
    # difference alone is not a violation: the hand-over is recorded and a
    # difference beyond 1e-10 counts only if the recorded arguments are not
    # equivalent to the input-derived ones.
    orig_tem = empymod.model.tem
    calls = []

    def _recording_tem(*a, **k):
        ret = orig_tem(*a, **k)
        calls.append((a, k, ret))
        return ret
    empymod.model.tem = _recording_tem
    try:
        td = np.asarray(F.freq2time(fdata_in, off))
    finally:
        empymod.model.tem = orig_tem
    if not _same_buffer(fdata_in, keep):
        raise Violation("freq2time:modifies_input", "fdata changed", det)
    rec.cls(f"off_as={X.get('off_as', 'float')}")
    sigs = [signal] if allowed_signals is None else allowed_signals
    cands = []
    for variant in sigs:
        targ = ftarg_ck if variant == signal else \
            _variant_ftarg(time, X, variant)
        r, _ = orig_tem(out[:, None], np.array(off), freq=req, time=t_ck,
                        signal=signal, ft=ft_ck, ftarg=targ)
        cands.append((np.squeeze(r), targ))
    got = None
    if len(calls) == 1:
        import inspect
        a, k, ret = calls[0]
        got = inspect.signature(orig_tem).bind(*a, **k).arguments
        ret0 = np.squeeze(ret[0])
        if td.shape != ret0.shape or not np.array_equal(td, ret0,
                                                        equal_nan=True):
            raise Violation(
                f"freq2time_not_the_transform_output:{ftk}",
                f"freq2time returned {np.ravel(td)[:3]}, the transform it "
                f"called returned {np.ravel(ret0)[:3]}", det)
    ok, why = False, ''
    for r, targ in cands:
        if td.shape != r.shape:
            why = f"shape {td.shape} vs {r.shape}"
            continue
        err = float(np.max(np.abs(td - r))) if r.size else 0.0
        ref = float(np.max(np.abs(r))) if r.size else 0.0
        if np.array_equal(td, r, equal_nan=True) or err <= 1e-10*ref:
            ok = True
            _margin('freq2time', err/(1e-10*ref + 1e-300))
            break
        if got is None:
            # transform not reached through empymod.model.tem: numbers only
            if err <= 1e-6*ref:
                ok = True
                rec.cls('freq2time=numeric_only')
                break
            why = "no call of empymod.model.tem recorded"
            continue
        diff = _handover_diff(got, {
            'fEM': out[:, None], 'off': np.array(off), 'freq': req,
            'time': t_ck, 'signal': signal, 'ft': ft_ck, 'ftarg': targ},
            scale)
        if not diff:
            ok = True
            rec.cls('freq2time=rounding_only_difference')
            break
        why = "arguments handed to the transform differ in " + ', '.join(diff)
    if not ok:
        r = cands[0][0]
        msg = (f"freq2time {np.ravel(td)[:3]} vs direct empymod.model.tem on "
               f"the filled spectrum {np.ravel(r)[:3]} (signal={signal}, "
               f"ft={ft_ck}); {why}")
        raise Violation(mismatch_sig or f"freq2time_mismatch:{ftk}", msg, det)
    if F.signal != signal or F.ft != ft_ck or not _eq(F.time, time) or \
            F.fmin != fmin or F.fmax != fmax:
        raise Violation("attributes_differ_from_inputs",
                        "time/signal/ft/fmin/fmax attribute differs", det)

    # ---- classification ---------------------------------------------------
    rec.cls(f"ext={'empty' if not ext.any() else 'yes'}",
            f"above={'empty' if not abv.any() else 'yes'}",
            f"lo={X['lo_mode']}", f"hi={X['hi_mode']}", f"edges={feat}",
            f"coarse={X['clabel']}", f"signal={signal}",
            "ncompute=" + ('1-3' if fc.size < 4 else '4-7' if fc.size < 8
                           else '8-31' if fc.size < 32 else '32+'),
            f"spectrum={sspec['kind']}")
    if same_size_differs:
        rec.cls('same_size_differs:counts_' +
                ('equal' if fc.size == fi.size else 'differ'))
    return ext.any() and itp.any() and abv.any()


def _same_buffer(a, keep):
    """a (possibly a strided view) still holds the values of its copy, and
    so does the memory between its elements."""
    if a.dtype != keep.dtype or not _eq(a, keep):
        return False
    base = a.base
    if isinstance(base, np.ndarray) and base.size == 2*a.size and \
            a.strides[0] == 2*a.itemsize:
        return bool(np.all(np.isnan(base[1::2])))
    return True


def hand_over(fdata, sspec):
    """-> (array handed to the object, label).  The exact complex128 value of
    the returned array is the spectrum the references are computed from."""
    how = sspec.get('as', 'c128') if ENABLE_FDATA_AS else 'c128'
    if how == 'c64':
        return fdata.astype(np.complex64), how
    if how == 'f64_real':
        return fdata.real.copy(), how
    if how == 'strided':                # NaN between the elements
        buf = np.full(2*fdata.size, np.nan + 1j*np.nan)
        buf[::2] = fdata
        return buf[::2], how
    if how == 'readonly':
        out = fdata.copy()
        out.flags.writeable = False
        return out, how
    return fdata, 'c128'


def offset(X):
    off, how = X['off'], X.get('off_as', 'float')
    if how == 'int':
        return max(1, int(round(off)))
    if how == 'f32':
        return np.float32(off)
    if how == 'arr1':
        return np.array([off])
    if how == 'list1':
        return [off]
    return off


def _handover_diff(got, want, scale):
    """Names of the arguments of the recorded transform call that are not
    equivalent to the input-derived ones."""
    bad = []
    for name, w in want.items():
        if name not in got:
            bad.append(name + '(missing)')
            continue
        g = got[name]
        if name == 'fEM':
            g = np.asarray(g)
            if g.shape != w.shape or np.any(
                    np.abs(g - w) > 1e-11*np.maximum(scale, np.abs(w))):
                bad.append(name)
        elif name == 'ftarg':
            if not isinstance(g, dict) or set(g) != set(w):
                bad.append('ftarg(keys)')
                continue
            for key in w:
                x, y = g[key], w[key]
                if key == 'dlf':
                    for n in ('base', 'factor', 'sin', 'cos'):
                        hx, hy = hasattr(x, n), hasattr(y, n)
                        if hx != hy or (hx and not _eq(getattr(x, n),
                                                       getattr(y, n))):
                            bad.append(f'ftarg[dlf].{n}')
                elif not _eq(x, y):
                    bad.append(f'ftarg[{key}]')
        elif name in ('signal', 'ft'):
            if g != w:
                bad.append(name)
        elif not _eq(g, w):
            bad.append(name)
    return bad


def _variant_ftarg(time, X, variant):
    """ftarg of the other (sine <-> cosine) transform variant."""
    ftarg = dict(X['ftarg'] or {})
    ft = 'dlf' if X['ft'] is None else X['ft'].lower()
    if ft == 'dlf':
        ftarg['kind'] = variant            # 'sin' / 'cos'
        return own_check_time(time, 0, ft, ftarg)[3]
    return own_check_time(time, -1 if variant == 'cos' else 0, ft, ftarg)[3]


def _ft_classes(rec, cfg, X):
    fs = cfg['ft']
    rec.cls(f"ft={fs['mode']}", f"ntime={'1' if X['time'].size == 1 else 'n'}")
    rec.cls(f"time_range={cfg['time'].get('range', 'std')}",
            "ft_spelling=" + ('not_passed' if X['ft'] is None else
                              'lower' if X['ft'] == X['ft'].lower() else
                              'upper' if X['ft'] == X['ft'].upper() else
                              'mixed'))
    if fs['mode'] == 'fft':
        rec.cls(f"fft={fs['var']}")
    if fs['ft'] == 'dlf' and fs['mode'] != 'default':
        rec.cls(f"filter={fs['filter']}")


def _valid_combo(args, one_d=False):
    """The combination is accepted by the reference bookkeeping.  one_d: and
    the required frequencies form a vector (standard DLF with several times
    gives a matrix, which is outside the property's quantifier; emg3d
    carries such a transient state along but cannot print it at verb=4)."""
    try:
        _, f, _, _ = own_check_time(args['time'], args['signal'], args['ft'],
                                    args['ftarg'])
    except Exception:
        return False
    f = np.asarray(f)
    if one_d and f.ndim != 1:
        return False
    return f.size >= 4 and bool(np.all(np.isfinite(f)))


# ----------------------------------------------------------------- cases
def _provenance(F, cfg, rec):
    """The object the oracle looks at: as built, a deep copy, or unpickled."""
    prov = cfg.get('prov', 'fresh') if ENABLE_PROVENANCE else 'fresh'
    try:
        if prov == 'deepcopy':
            F = copy.deepcopy(F)
        elif prov == 'pickle':
            F = pickle.loads(pickle.dumps(F))
    except Exception:
        # that the object can be copied / pickled is not part of the property
        prov += '_failed'
    rec.cls(f'prov={prov}')
    return F


def _check_coarse_model(F, m_ev, m_inp, where, ops, X):
    """Documented bookkeeping of the two mutually exclusive inputs."""
    if (F.every_x_freq != m_ev) or ((F.input_freq is None) != (m_inp is None)):
        raise Violation(
            SIG_COARSE,
            f"after {where}: every_x_freq={F.every_x_freq!r}, input_freq is "
            f"{'None' if F.input_freq is None else 'set'}; expected "
            f"every_x_freq={m_ev!r}, input_freq "
            f"{'None' if m_inp is None else 'set'}",
            {'ops': ops, 'inputs': _describe(X)})


def _touch(F):
    """USE the object in its current (possibly transient) state: read every
    public attribute and fill a spectrum.  Nothing is demanded of transient
    states (they may legitimately hold fewer than four computed points, an
    empty band, ...); whatever is computed here must not survive into the
    final state."""
    try:
        for name in PROPS:
            getattr(F, name)
        n = int(np.asarray(F.freq_compute).size)
        F.interpolate((np.arange(n) + 1.0)*(1.0 - 0.5j))
    except Exception:
        pass


def case_fill(spec, rec):
    import emg3d
    X = realise(spec)
    kw = _kwargs(X)
    if X['inp'] is not None:
        kw['input_freq'] = X['inp']
    if X['every'] is not None:
        kw['every_x_freq'] = X['every']
    if X['ctor_every'] is not None:
        kw['every_x_freq'] = X['ctor_every']
        rec.cls('ctor=input_freq_and_every_x_freq')
    verb = spec.get('verb', 0)
    with warnings.catch_warnings(), contextlib.redirect_stdout(io.StringIO()):
        warnings.simplefilter('ignore')
        F = emg3d.time.Fourier(X['time'], X['fmin'], X['fmax'],
                               signal=X['signal'], verb=verb, **kw)
        if X['ctor_every'] is not None:
            _check_coarse_model(F, None, X['inp'], 'the constructor', [], X)
        F = _provenance(F, spec, rec)
        nontrivial = _oracle(F, X, spec['spectrum'], rec)
    _ft_classes(rec, spec, X)
    rec.cls(f'verb={verb}')
    if nontrivial:
        rec.nt([spec['time'], spec['signal'], spec['ft'], spec['coarse'],
                spec['band']])
    rec.note({'nreq': int(X['req'].size), 'fmin': X['fmin'],
              'fmax': X['fmax'], 'coarse': X['clabel'],
              'ft': spec['ft']['mode']})


def case_setters(spec, rec):
    import emg3d
    cfg, ini, ops = spec['final'], spec['init'], list(spec['ops'])
    mid = spec.get('mid') or [None]*len(ops)
    touch = spec.get('touch') or [False]*(len(ops) + 1)
    none_which = spec.get('none_which', 'set')
    X = realise(cfg)
    # initial values of the attributes that are later set through setters
    t0 = build_time(ini['time'])
    ft0, ftarg0 = build_ft(ini['ft'])
    args = {'time': X['time'], 'fmin': X['fmin'], 'fmax': X['fmax'],
            'signal': X['signal'], 'ft': X['ft'], 'ftarg': X['ftarg']}
    m_inp, m_ev = X['inp'], X['every']          # model of the coarse inputs
    if X['ctor_every'] is not None:
        m_ev = X['ctor_every']
    if 'time' in ops:
        args['time'] = t0
    if 'signal' in ops:
        args['signal'] = ini['signal']
    if 'ft' in ops:
        args['ft'], args['ftarg'] = ft0, ftarg0
    if 'fmin' in ops:
        args['fmin'] = ini['fmin']
    if 'fmax' in ops:
        args['fmax'] = args['fmin']*ini['fmax_fac']
    if 'coarse' in ops:
        m_inp = m_ev = None
        if ini['coarse'] in ('every', 'both'):
            m_ev = ini['every']
        if ini['coarse'] in ('input', 'both'):
            m_inp = np.logspace(-2, 1, ini['n_input'])
    # the initial combination must itself be a valid input; fall back to
    # plain alternatives if the independently drawn pieces do not fit
    one_d = spec['verb'] > 3
    if not _valid_combo(args, one_d):
        if 'ft' in ops:
            args['ft'], args['ftarg'] = 'dlf', None
        if 'time' in ops and not _valid_combo(args, one_d):
            args['time'] = X['time']*2.5
    kw = {}
    if args['ft'] is not None:
        kw['ft'] = args['ft']
    if args['ftarg'] is not None:
        kw['ftarg'] = args['ftarg']
    if m_inp is not None:
        kw['input_freq'] = m_inp
    if m_ev is not None:
        kw['every_x_freq'] = m_ev
    if m_inp is not None and m_ev is not None:
        rec.cls('ctor=input_freq_and_every_x_freq')
        m_ev = None                 # documented: input_freq is kept
    last = {op: i for i, op in enumerate(ops)}
    state = dict(args)              # model of what check_time depends on
    ever_nonzero = state['signal'] != 0
    before_last_signal = state['signal']
    band = [args['fmin'], args['fmax']]
    with warnings.catch_warnings(), contextlib.redirect_stdout(io.StringIO()):
        warnings.simplefilter('ignore')
        F = emg3d.time.Fourier(args['time'], args['fmin'], args['fmax'],
                               signal=args['signal'], verb=spec['verb'], **kw)
        _check_coarse_model(F, m_ev, m_inp, 'the constructor', ops, X)
        if touch[0]:
            _touch(F)
        for i, op in enumerate(ops):
            final = last[op] == i
            m = None if final else mid[i]
            if not final and m is None:
                raise Inconclusive("repeated setter without a transient value")
            if op in ('time', 'signal', 'ft'):
                new = dict(state)
                if op == 'time':
                    new['time'] = X['time'] if final else build_time(m['time'])
                elif op == 'signal':
                    new['signal'] = X['signal'] if final else m['signal']
                elif final:
                    new['ft'] = 'dlf' if X['ft'] is None else X['ft']
                    new['ftarg'] = {} if X['ftarg'] is None else X['ftarg']
                else:
                    fs = dict(m['ft'])
                    if fs['mode'] == 'standard' and state['time'].size > 1:
                        fs['mode'], fs['ppd'] = 'lagged', -1
                    ft_, fa_ = build_ft(fs)
                    new['ft'] = 'dlf' if ft_ is None else ft_
                    new['ftarg'] = {} if fa_ is None else fa_
                if not _valid_combo(new, one_d):
                    # emg3d may legitimately refuse this transient combination
                    if final:
                        raise Inconclusive("final setter value does not fit "
                                           "the transient settings")
                    rec.cls('transient=skipped_invalid_combination')
                    continue
                if op == 'time':
                    F.time = new['time']
                elif op == 'signal':
                    if final:
                        before_last_signal = state['signal']
                    F.signal = new['signal']
                    ever_nonzero = ever_nonzero or new['signal'] != 0
                else:
                    F.fourier_arguments(new['ft'], new['ftarg'])
                state = new
            elif op == 'fmin':
                band[0] = X['fmin'] if final else m['v']
                F.fmin = band[0]
            elif op == 'fmax':
                band[1] = X['fmax'] if final else m['v']
                F.fmax = band[1]
            elif op == 'coarse' and final:
                if X['ctor_every'] is not None:
                    F.every_x_freq = X['ctor_every']    # erases input_freq
                    m_ev, m_inp = X['ctor_every'], None
                    _check_coarse_model(F, m_ev, m_inp, f'op {i} (every)',
                                        ops, X)
                if X['cmode'] == 'every':
                    F.every_x_freq = X['every']     # erases input_freq
                    m_ev, m_inp = X['every'], None
                elif X['cmode'] == 'input':
                    F.input_freq = X['inp']         # erases every_x_freq
                    m_inp, m_ev = X['inp'], None
                else:
                    if m_ev is not None or none_which == 'both':
                        F.every_x_freq = None
                    if m_inp is not None or none_which == 'both':
                        F.input_freq = None
                    m_inp = m_ev = None
            elif op == 'coarse':
                if m['coarse'] == 'every':
                    F.every_x_freq = m['every']
                    m_ev, m_inp = m['every'], None
                elif m['coarse'] == 'input':
                    m_inp, m_ev = np.logspace(-2, 1, m['n_input']), None
                    F.input_freq = m_inp
                elif m['which'] == 'other':
                    # None assigned to the one that is not set: the partner
                    # must survive
                    if m_ev is not None:
                        F.input_freq = None
                    else:
                        F.every_x_freq = None
                    if m_ev is not None or m_inp is not None:
                        rec.cls('coarse_none=assigned_to_unset_partner')
                else:
                    if m_ev is not None or m['which'] == 'both':
                        F.every_x_freq = None
                    if m_inp is not None or m['which'] == 'both':
                        F.input_freq = None
                    m_inp = m_ev = None
            if op == 'coarse':
                _check_coarse_model(F, m_ev, m_inp, f'op {i} (coarse)', ops, X)
            if not final:
                rec.cls(f'transient_op={op}')
            if band[0] > band[1]:
                rec.cls('transient=fmin_above_fmax')
            if touch[i + 1]:
                _touch(F)
        _check_coarse_model(F, m_ev, m_inp, 'all setters', ops, X)
        # which transform variants are acceptable / which bucket on mismatch
        allowed, sig = None, None
        if 'signal' in ops and before_last_signal != X['signal']:
            later = ops[last['signal']+1:]
            if 'time' not in later and 'ft' not in later:
                sig = SIG_SIGNAL_SETTER
                rec.cls('signal_setter=last_word')
            else:
                rec.cls('signal_setter=rechecked_later')
        # a DLF 'kind' chosen for an earlier non-zero signal legitimately
        # persists once the signal is set to 0 (empymod: user-given kind)
        if 'signal' in ops and X['signal'] == 0 and ever_nonzero:
            allowed = ['sin', 'cos']
        F = _provenance(F, cfg, rec)
        nontrivial = _oracle(F, X, cfg['spectrum'], rec,
                             allowed_signals=allowed, mismatch_sig=sig)
    _ft_classes(rec, cfg, X)
    rec.cls('ops=' + str(len(ops)), *[f"op={o}" for o in sorted(set(ops))])
    rec.cls('ops_repeated=' + ('yes' if len(set(ops)) < len(ops) else 'no'),
            f"touched={'no' if not any(touch) else 'yes'}",
            f"verb={spec['verb']}")
    if nontrivial:
        rec.nt([cfg['time'], cfg['signal'], cfg['ft'], cfg['coarse'],
                cfg['band'], ops, ini['signal']])
    rec.note({'ops': ops, 'nreq': int(X['req'].size),
              'coarse': X['clabel'], 'ft': cfg['ft']['mode']})


SUBS = {'fill': case_fill, 'setters': case_setters}
FUZZ = {'fill': (config(), case_fill), 'setters': (setter_spec(), case_setters)}


def run(ctx):
    ctx.regression(SUBS)
    ctx.explore('fill', config(), case_fill, ctx.n(1200, 8000))
    ctx.explore('setters', setter_spec(), case_setters, ctx.n(400, 2500))
    ctx.fuzz('fill', ctx.n(250, 5000))
    ctx.fuzz('setters', ctx.n(120, 2000))
    ctx.notes['max_error_over_tolerance'] = {
        k: float(f'{v:.3g}') for k, v in sorted(MARGIN.items())}

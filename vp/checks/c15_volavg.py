"""C15 - volume averaging between tensor grids.

Sub-checks
----------
interp   emg3d.maps.interpolate(method='volume', log in {False, True}) against
         (a) a checker-side reference (dense 1D overlap matrices of the source
         cells extended to infinity at both ends = nearest fill), (b) the
         discretize operator, (c) conservation of the integral on same-region
         pairs, (d) range preservation, (e) identity on equal grids, (f) the
         pointwise nearest-value rule for output cells that lie in a single
         (extended) source cell, (g) interp_volume_average.py_func; values
         as float64 F/C/strided/negative-stride arrays or float32;
         extrapolate=False must change nothing; 1/interp(1/v) == interp(v)
         in log mode.
adjoint  emg3d.maps._interp_volume_average_adj is added in place, component by
         component, and is the exact transpose of what interpolate() applies:
         <P x, y> = <x, P^T y> for random and unit vectors; optionally two
         calls with different `ngrid` onto one `oval` (sum), C-ordered arrays.
model    Model.interpolate_to_grid: equal grid -> the model itself; otherwise
         a new model on the new grid whose conductivities are the log-mode
         average, the same for all six mappings (Resistivity vs Conductivity
         in particular); mu_r / epsilon_r are averaged in the same mode
         (reference + single-cell rule + range); keyword overrides (log,
         extrapolate, method); Model / mesh provenance (copy, from_dict,
         pickle, numbers); one Model object used again after its values
         changed, for a second target, chained g1->g2->g1; two Models onto
         one target mesh object.
weights  _volume_average_weights compiled vs .py_func vs reference 1D matrix.
"""
import numpy as np
from hypothesis import strategies as st

from vp import gen
from vp.framework import HarnessError, Inconclusive, Violation

RULE = ("Grid pairs are built by construction, per direction one of the "
        "relations ident / same (same interval, other partition) / refine "
        "(target nodes contain the source nodes) / coarsen / inside (target "
        "interval within the source) / outside (target encloses the source) "
        "/ shift (partial overlap) / translate / translate_same (same widths, "
        "other origin) / disjoint, 1..12 cells per direction, or 100..300 "
        "cells in one direction and <= 2 in the others; node arithmetic "
        "either an exact dyadic integer lattice (coinciding nodes coincide "
        "bit for bit) or arbitrary floats with offsets up to 1000 domain "
        "lengths, widths random / stretched / uniform / uniform core with "
        "boundary cells 10..1e4 times wider; values log-uniform within "
        "[1e-4, 1e4] or ('wide') [1e-14, 1e14] (homogeneous, blocks, layered, "
        "noise, single spike, air layer 1e-14..1e-8 on top), a drawn number "
        "of decades up to 8; float64 F / C / strided / negative-stride "
        "arrays and float32; linear and log10 mode, extrapolate=False; six "
        "mappings and four anisotropy cases for Model.interpolate_to_grid, "
        "with keyword overrides (log, extrapolate, method), Models that are "
        "new / copy() / from_dict / unpickled / built from numbers, target "
        "meshes that are new / copy() / from_dict, structured mu_r and "
        "epsilon_r, and sequences on one object (edit and interpolate again; "
        "second target; second source on one target mesh; g1->g2->g1).  "
        "Non-trivial = the grids are not identical, the values span > 0.5 "
        "decades and are not homogeneous, and at least one output cell "
        "overlaps two or more source cells; distinct by (relations, cell "
        "counts, seeds).")
ASSUMPTIONS = [
    "checker-side reference: out[o] = sum_i |o ∩ ext(i)| v[i] / |o| per "
    "direction (tensor product), ext(i) = source cell i, the first/last one "
    "extended to -inf/+inf (nearest fill); shares no code with emg3d/discretize",
    "discretize.utils.volume_average(g1, g2) is the operator whose transpose "
    "emg3d uses for gradients (third party, trusted only as the named peer)",
    "tolerance 1e4*eps*kappa relative to the sum of absolute terms, kappa = 1 "
    "on the exact lattice and 1 + sum_d max|node_d|/min h_d for float grids "
    "(rounding of the node coordinates themselves); float32 values: plus "
    "(prod(n_d + 2) + 16)*eps32 (one rounding per accumulated term); float "
    "grids: nodes coinciding by construction may differ by 4 eps |node| (in "
    "proportion more beyond 12+12 cells), the induced change enters the "
    "tolerance",
    "emg3d.TensorMesh node coordinates are origin + cumsum(h)",
    "Model.interpolate_to_grid passes mu_r and epsilon_r through the same "
    "interpolate call as the properties (models.py: one loop, one option "
    "dict): they are averaged in the mode given by `log` (default: log10 "
    "for the three non-log mappings, linear for the Lg/Ln mappings); "
    "documented: keyword arguments are passed through, 'volume' ignores "
    "`extrapolate`, log mode gives the same for resistivity and conductivity",
    "log=True is not combined with the Lg/Ln mappings (log10 of negative "
    "property values); with log=False the comparison between mappings is "
    "restricted to the mappings that still average log(conductivity)",
    "grids equal by emg3d's tolerance-based __eq__ but not bit-equal: either "
    "the model itself or a model satisfying all oracles is accepted",
    "results of interpolation are a function of (values, source grid, target "
    "grid): sequences on one Model / mesh object are compared with new "
    "objects at rtol 1e-12",
    "discretize.TensorMesh targets, Model sums and int64 values are not "
    "generated (not documented for interpolate_to_grid / out of the "
    "property's domain)",
]
SHARDS = {'quick': 1, 'thorough': 16}

C_EPS = 1e4*np.finfo(float).eps
RELS = ['ident', 'same', 'refine', 'coarsen', 'inside', 'outside', 'shift',
        'translate',
        'disjoint',
        # same cell widths, other origin (shift of at least ~one cell)
        'translate_same']
CONSERVING = {'ident', 'same', 'refine', 'coarsen'}
KIND_POOLS = {
    'identical': ['ident'],
    'finer': ['refine', 'refine', 'refine', 'ident'],
    'coarser': ['coarsen', 'coarsen', 'coarsen', 'ident'],
    'same_region': ['same', 'same', 'refine', 'coarsen'],
    'nested': ['inside', 'inside', 'same', 'refine'],
    'enclosing': ['outside', 'outside', 'same', 'coarsen'],
    'shifted': ['shift', 'shift', 'inside', 'outside', 'same'],
    # translated copy of the bounding box: same total extent in every
    # direction, other origin (and possibly other partition)
    'translated': ['translate', 'translate', 'same', 'ident'],
    # identical widths in every direction, only the origin differs
    'translated_same': ['translate_same', 'translate_same', 'ident'],
    'disjoint': ['disjoint', 'shift', 'outside', 'same'],
    'mixed': RELS,
}
NCELL = st.sampled_from([3, 2, 4, 5, 12, 6, 1, 7, 8, 2, 9, 10, 3, 11, 12, 4])
# many cells in ONE direction (the other two are cut to <= 2 cells): the
# merged node set of that direction exceeds 127 / 255 entries
BIG = st.sampled_from([0, 0, 0, 0, 0, 0, 100, 130, 300])
NCELL_W = st.sampled_from([3, 2, 4, 5, 12, 6, 1, 7, 8, 2, 9, 10, 3, 11, 12, 4,
                           100, 130, 300])


# ------------------------------------------------------------ strategies
def pair_spec(kinds=None):
    kinds = list(KIND_POOLS) if kinds is None else kinds
    alts = []
    for k in kinds:
        pool = KIND_POOLS[k]
        alts.append(st.fixed_dictionaries({
            'kind': st.just(k),
            'rels': st.tuples(*[st.sampled_from(pool)]*3).map(list),
            'axis': st.integers(0, 2),
            'na': st.tuples(NCELL, NCELL, NCELL).map(list),
            'nb': st.tuples(NCELL, NCELL, NCELL).map(list),
            'arith': st.sampled_from(['float', 'lattice', 'float']),
            'widths': st.sampled_from(['random', 'stretch', 'uniform',
                                       'boundary']),
            'lgunit': st.integers(-4, 8),
            'scale': gen.lgfloat(1e-2, 1e4),
            'offset': st.sampled_from([0.0, 1.0, 1.0, 30.0, 1000.0]),
            'seed': gen.SEED,
            'big': BIG,
            'bigside': st.sampled_from(['ab', 'a', 'b']),
        }))
    return st.one_of(*alts)


def values_spec():
    return st.fixed_dictionaries({
        'decades': st.one_of(st.sampled_from([8.0, 6.0, 4.0, 2.0, 1.0, 0.3]),
                             st.floats(0.0, 8.0)),
        'hetero': st.sampled_from(['noise', 'blocks', 'layered', 'spike',
                                   'noise', 'homog', 'air_layer']),
        'center': st.floats(-1.0, 1.0),
        'seed': gen.SEED,
        # wide: the window of the values is [1e-14, 1e14] instead of
        # [1e-4, 1e4] (the spread within one array stays <= `decades`)
        'wide': st.sampled_from([False, False, True]),
    })


# -------------------------------------------------------------- builders
def _int_partition(rng, lo, hi, n):
    """Sorted integer nodes lo=..<..=hi with n cells (needs hi-lo >= n)."""
    inner = rng.choice(np.arange(lo+1, hi), size=n-1, replace=False) \
        if n > 1 else np.array([], dtype=int)
    return np.concatenate([[lo], np.sort(inner), [hi]]).astype(np.int64)


def _axis_lattice(rel, na, nb, rng):
    """Integer node arrays (source, target) realising `rel`."""
    if rel == 'ident':
        a = _int_partition(rng, 0, na + int(rng.integers(0, 3*na+1)), na)
        return a, a.copy()
    if rel == 'same':
        L = max(na, nb) + int(rng.integers(0, 20))
        return _int_partition(rng, 0, L, na), _int_partition(rng, 0, L, nb)
    if rel in ('refine', 'coarsen'):
        nc, nf = min(na, nb), max(na, nb)
        L = nf + int(rng.integers(0, 20))
        fine = _int_partition(rng, 0, L, nf)
        keep = np.sort(rng.choice(np.arange(1, nf), size=nc-1, replace=False)) \
            if nc > 1 else np.array([], dtype=int)
        coarse = np.concatenate([[0], fine[keep], [L]]).astype(np.int64)
        return (coarse, fine) if rel == 'refine' else (fine, coarse)
    if rel == 'inside':
        L = max(na, nb) + int(rng.integers(0, 20))
        a = _int_partition(rng, 0, L, na)
        p = int(rng.integers(0, L-nb+1))
        q = int(rng.integers(p+nb, L+1))
        return a, _int_partition(rng, p, q, nb)
    if rel == 'outside':
        L = na + int(rng.integers(0, 12))
        a = _int_partition(rng, 0, L, na)
        p = -int(rng.integers(0, 12))
        q = L + int(rng.integers(0, 12))
        while q - p < nb:
            p -= int(rng.integers(0, 3))
            q += int(rng.integers(1, 3))
        return a, _int_partition(rng, p, q, nb)
    if rel == 'translate':
        L = max(na, nb, 2) + int(rng.integers(0, 12))
        a = _int_partition(rng, 0, L, na)
        sh = int(rng.integers(1, L+3))*(-1)**int(rng.integers(2))
        return a, _int_partition(rng, sh, sh+L, nb)
    if rel == 'translate_same':
        L = na + int(rng.integers(0, 12))
        a = _int_partition(rng, 0, L, na)
        sh = int(rng.integers(int(np.diff(a).max()), L+3)) * \
            (-1)**int(rng.integers(2))
        return a, a + sh
    if rel == 'shift':
        L = max(na, 2) + int(rng.integers(0, 12))
        a = _int_partition(rng, 0, L, na)
        p = int(rng.integers(1, L))
        q = L + 1 + int(rng.integers(0, 12))
        while q - p < nb:
            q += int(rng.integers(1, 4))
        b = _int_partition(rng, p, q, nb)
        if rng.integers(2):            # mirror: overlap at the lower end
            b = (L - b)[::-1].copy()
        return a, b
    if rel == 'disjoint':
        L = na + int(rng.integers(0, 12))
        a = _int_partition(rng, 0, L, na)
        p = L + int(rng.integers(0, 2))*int(rng.integers(1, 12))
        q = p + nb + int(rng.integers(0, 12))
        b = _int_partition(rng, p, q, nb)
        if rng.integers(2):
            b = (L - b)[::-1].copy()
        return a, b
    raise HarnessError(f"unknown relation {rel}")


def _widths(rng, n, kind):
    if kind == 'uniform':
        return np.ones(n)*rng.uniform(0.5, 2)
    if kind == 'stretch':
        c = rng.uniform(0, max(n-1, 0))
        f = rng.uniform(1.0, 1.5)
        if n > 12:                  # same total ratio as for 12 cells
            f = f**(11.0/(n-1))
        return f**np.abs(np.arange(n)-c)*rng.uniform(0.5, 2)
    if kind == 'boundary':
        # computational-grid like: uniform core, one or two boundary cells
        # per side which are 10 .. 1e4 times wider than the core cells
        h = np.ones(n)*rng.uniform(0.5, 2)
        ratio = 10.0**rng.uniform(1, 4)
        k = int(rng.integers(1, 3))
        for side in (0, 1):
            if not rng.integers(0, 3):          # a third: this side plain
                continue
            for j in range(min(k, (n-1)//2)):
                i = j if side == 0 else n-1-j
                h[i] *= ratio**((k-j)/k)
        return h
    return rng.uniform(0.5, 2, size=n)


def _axis_float(rel, na, nb, rng, kind, scale, offset):
    """(h1, o1, h2, o2) in floats realising `rel` up to rounding."""
    def interval(p, q, n):
        h = _widths(rng, n, kind)
        return h*((q-p)/h.sum())

    if rel in ('refine', 'coarsen'):
        nc, nf = min(na, nb), max(na, nb)
        hc = _widths(rng, nc, kind)*scale
        # split the coarse cells into nf parts in total
        parts = np.ones(nc, dtype=int)
        for _ in range(nf-nc):
            parts[rng.integers(0, nc)] += 1
        hf = np.concatenate([interval(0.0, w, k) for w, k in zip(hc, parts)])
        L = hc.sum()
        o = rng.uniform(-1, 1)*L*offset
        return (hc, o, hf, o) if rel == 'refine' else (hf, o, hc, o)
    n1 = na
    n2 = na if rel in ('ident', 'translate_same') else nb
    h1 = _widths(rng, n1, kind)*scale
    L = h1.sum()
    o1 = rng.uniform(-1, 1)*L*offset
    end = o1 + L
    if rel == 'ident':
        return h1, o1, h1.copy(), o1
    if rel == 'same':
        return h1, o1, interval(0.0, L, n2), o1
    if rel == 'translate_same':
        sh = rng.uniform(1.0, 3.0)*h1.max()*(-1)**int(rng.integers(2))
        return h1, o1, h1.copy(), o1 + sh
    if rel == 'inside':
        p = o1 + rng.uniform(0, 0.6)*L*rng.integers(0, 2)
        q = end - rng.uniform(0, 0.3)*L*rng.integers(0, 2)
    elif rel == 'outside':
        p = o1 - rng.uniform(0, 1)*L*rng.integers(0, 2)
        q = end + rng.uniform(0, 1)*L*rng.integers(0, 2)
    elif rel == 'translate':
        p = o1 + rng.uniform(0.05, 1.2)*L*(-1)**int(rng.integers(2))
        q = p + L
    elif rel == 'shift':
        if rng.integers(2):
            p = o1 + rng.uniform(0.05, 0.95)*L
            q = end + rng.uniform(0.05, 2)*L
        else:
            p = o1 - rng.uniform(0.05, 2)*L
            q = o1 + rng.uniform(0.05, 0.95)*L
    elif rel == 'disjoint':
        gap = rng.uniform(0, 1)*L*rng.integers(0, 2)
        if rng.integers(2):
            p = end + gap
            q = p + rng.uniform(0.2, 2)*L
        else:
            q = o1 - gap
            p = q - rng.uniform(0.2, 2)*L
    else:
        raise HarnessError(f"unknown relation {rel}")
    return h1, o1, interval(p, q, n2), p


def effective_rels(ps):
    rels = list(ps['rels'])
    if ps['kind'] == 'disjoint':
        rels[ps['axis']] = 'disjoint'
    return rels


def cell_counts(ps):
    """Cell counts per direction of source and target (drawn; with 'big'
    one direction gets 100..300 cells and the other two at most 2)."""
    na, nb = list(ps['na']), list(ps['nb'])
    big = ps.get('big', 0)
    if big:
        side = ps.get('bigside', 'ab')
        for d in range(3):
            if d == ps['axis']:
                if side in ('a', 'ab'):
                    na[d] = big
                if side in ('b', 'ab'):
                    nb[d] = big if side == 'b' else (2*big)//3
            else:
                na[d], nb[d] = min(na[d], 2), min(nb[d], 2)
    return na, nb


def build_pair(ps):
    """-> g1 (source), g2 (target), info dict."""
    import emg3d
    rng = gen.rng_of(ps['seed'], 21)
    rels = effective_rels(ps)
    lattice = ps['arith'] == 'lattice'
    h1, h2, o1, o2, exact = [], [], [], [], []
    cna, cnb = cell_counts(ps)
    for d in range(3):
        na, nb = cna[d], cnb[d]
        if lattice:
            a, b = _axis_lattice(rels[d], na, nb, rng)
            u = 2.0**ps['lgunit']
            off = int(rng.integers(-10**6, 10**6)) if ps['offset'] else 0
            a = (a + off)*u
            b = (b + off)*u
            h1.append(np.diff(a)); o1.append(a[0])
            h2.append(np.diff(b)); o2.append(b[0])
            exact.append((a, b))
        else:
            sc = ps['scale']*10.0**rng.uniform(-1, 1)
            x = _axis_float(rels[d], na, nb, rng, ps['widths'], sc,
                            ps['offset'])
            h1.append(np.asarray(x[0], float)); o1.append(float(x[1]))
            h2.append(np.asarray(x[2], float)); o2.append(float(x[3]))
    g1 = emg3d.TensorMesh(h1, origin=np.array(o1, float))
    g2 = emg3d.TensorMesh(h2, origin=np.array(o2, float))
    n1 = [g1.nodes_x, g1.nodes_y, g1.nodes_z]
    n2 = [g2.nodes_x, g2.nodes_y, g2.nodes_z]
    kappa = 1.0
    for d in range(3):
        if np.any(np.diff(n1[d]) <= 0) or np.any(np.diff(n2[d]) <= 0):
            raise HarnessError("generator produced non-increasing nodes")
        if lattice:
            if not (np.array_equal(n1[d], exact[d][0]) and
                    np.array_equal(n2[d], exact[d][1])):
                raise HarnessError("lattice nodes are not exact")
        else:
            big = max(np.abs(n1[d]).max(), np.abs(n2[d]).max())
            kappa += big/min(h1[d].min(), h2[d].min())
    identical = all(np.array_equal(h1[d], h2[d]) and o1[d] == o2[d]
                    for d in range(3))
    info = {'rels': rels, 'lattice': lattice, 'kappa': kappa,
            'conserving': all(r in CONSERVING for r in rels),
            'identical': identical, 'n1': n1, 'n2': n2, 'h1': h1, 'h2': h2}
    return g1, g2, info


def pair_info(ga, gb, lattice, rels):
    """info dict (as from build_pair) for any source ga and target gb."""
    n1 = [ga.nodes_x, ga.nodes_y, ga.nodes_z]
    n2 = [gb.nodes_x, gb.nodes_y, gb.nodes_z]
    h1 = [np.diff(x) for x in n1]
    h2 = [np.diff(x) for x in n2]
    kappa = 1.0
    for d in range(3):
        if np.any(h1[d] <= 0) or np.any(h2[d] <= 0):
            raise HarnessError("generator produced non-increasing nodes")
        if not lattice:
            big = max(np.abs(n1[d]).max(), np.abs(n2[d]).max())
            kappa += big/min(h1[d].min(), h2[d].min())
    identical = all(np.array_equal(n1[d], n2[d]) for d in range(3))
    return {'rels': list(rels), 'lattice': lattice, 'kappa': kappa,
            'conserving': False, 'identical': identical,
            'n1': n1, 'n2': n2, 'h1': h1, 'h2': h2}


def fresh_mesh(g):
    """A new, never used TensorMesh object equal to g."""
    import emg3d
    out = emg3d.TensorMesh([np.array(h, copy=True) for h in g.h],
                           origin=np.array(g.origin, copy=True))
    for a, b in zip((g.nodes_x, g.nodes_y, g.nodes_z),
                    (out.nodes_x, out.nodes_y, out.nodes_z)):
        if not np.array_equal(a, b):
            raise HarnessError("copy of a mesh has other nodes")
    return out


def third_grid(ps, info, salt):
    """A further grid g3 for the pair of `info`: per direction 1..12 cells
    whose nodes are drawn from the nodes of g1 and g2 and the midpoints
    between them (exact on the lattice; on float grids candidates closer
    than 5 % of the smallest cell are dropped).  -> g3 or None."""
    import emg3d
    rng = gen.rng_of(ps['seed'], salt)
    nodes = []
    for d in range(3):
        s = np.unique(np.concatenate([info['n1'][d], info['n2'][d]]))
        s = np.unique(np.concatenate([s, 0.5*(s[:-1] + s[1:])]))
        if not info['lattice']:
            gap = 0.05*min(info['h1'][d].min(), info['h2'][d].min())
            keep = [s[0]]
            for x in s[1:]:
                if x - keep[-1] > gap:
                    keep.append(x)
            s = np.array(keep)
        if len(s) < 2:
            return None
        n3 = int(rng.integers(1, min(len(s)-1, 12)+1))
        idx = np.sort(rng.choice(len(s), size=n3+1, replace=False))
        nodes.append(s[idx])
    g3 = emg3d.TensorMesh([np.diff(x) for x in nodes],
                          origin=np.array([x[0] for x in nodes]))
    if info['lattice']:
        for a, b in zip(nodes, (g3.nodes_x, g3.nodes_y, g3.nodes_z)):
            if not np.array_equal(a, b):
                raise HarnessError("lattice nodes of the third grid are not "
                                   "exact")
    return g3


def build_values(vs, shape, salt=31):
    """Positive values within [1e-4, 1e4] ([1e-14, 1e14] if 'wide');
    returns array (F-ordered)."""
    rng = gen.rng_of(vs['seed'], salt)
    shape = tuple(shape)
    d = vs['decades']
    half = 14.0 if vs.get('wide', False) else 4.0
    c = vs['center']*(half - d/2)
    het = vs['hetero']
    if het == 'homog':
        lg = np.full(shape, c + rng.uniform(-d/2, d/2))
    elif het == 'blocks':
        lg = np.full(shape, c + rng.uniform(-d/2, d/2))
        for _ in range(3):
            lo = [int(rng.integers(0, n)) for n in shape]
            hi = [int(rng.integers(l+1, n+1)) for l, n in zip(lo, shape)]
            lg[lo[0]:hi[0], lo[1]:hi[1], lo[2]:hi[2]] = c + rng.choice(
                [-d/2, d/2, rng.uniform(-d/2, d/2)])
    elif het == 'layered':
        ax = int(rng.integers(0, 3))
        sh = [1, 1, 1]
        sh[ax] = shape[ax]
        lg = np.broadcast_to(
            c + rng.uniform(-d/2, d/2, size=shape[ax]).reshape(sh),
            shape).copy()
    elif het == 'spike':
        lg = np.full(shape, c - d/2)
        k = tuple(int(rng.integers(0, n)) for n in shape)
        lg[k] = c + d/2
    else:
        lg = c + rng.uniform(-d/2, d/2, size=shape)
    lg = np.clip(lg, -half, half)
    if het == 'air_layer' and shape[2] > 1:
        # uppermost z-cells: air, 1e-14 .. 1e-8 (S/m as a conductivity)
        k = int(rng.integers(1, shape[2]))
        lg[:, :, shape[2]-k:] = rng.uniform(-14.0, -8.0)
    return np.asfortranarray(10.0**lg)


# ------------------------------------------------------------- reference
def ref_w1d(a, b):
    """Overlap lengths (len(b)-1, len(a)-1) of target cells with the source
    cells, the first and last source cell extended to infinity."""
    lo_s = a[:-1].astype(float).copy()
    hi_s = a[1:].astype(float).copy()
    lo_s[0] = -np.inf
    hi_s[-1] = np.inf
    lo = np.maximum(b[:-1, None], lo_s[None, :])
    hi = np.minimum(b[1:, None], hi_s[None, :])
    return np.clip(hi - lo, 0.0, None)


def ref_matrices(info):
    return [ref_w1d(info['n1'][d], info['n2'][d])/info['h2'][d][:, None]
            for d in range(3)]


def ref_matrices_pert(info):
    """Reference matrices with every entry that a node perturbation of a few
    ulp could create or change increased by that amount.

    emg3d assigns the pieces between consecutive nodes of the merged node set
    by their (rounded) midpoints.  If two nodes that coincide only up to
    rounding are adjacent floats, the piece between them (width ~ ulp) can
    land in the neighbouring cell: the result is the exact average for nodes
    moved by <= 2 ulp.  The problem itself is that sensitive to the node
    coordinates (d out / d node = jump of the values / cell width), so the
    tolerance has to contain the term; it is zero on the exact lattice.
    """
    if info['lattice']:
        return None
    out = []
    for d in range(3):
        a, b, h2 = info['n1'][d], info['n2'][d], info['h2'][d]
        delta = _node_ulps(a, b)*np.finfo(float).eps*max(np.abs(a).max(),
                                                         np.abs(b).max())
        lo_s = a[:-1].astype(float).copy()
        hi_s = a[1:].astype(float).copy()
        lo_s[0] = -np.inf
        hi_s[-1] = np.inf
        touch = (lo_s[None, :] <= b[1:, None] + delta) & \
            (hi_s[None, :] >= b[:-1, None] - delta)
        out.append(ref_w1d(a, b)/h2[:, None] + touch*(2*delta/h2[:, None]))
    return out


def _node_ulps(a, b):
    """Allowed deviation, in units of eps*max|node|, between nodes of two
    grids that coincide by construction: the nodes are origin + cumsum(h),
    one rounding per cell.  4 up to 12+12 cells (as found adequate), growing
    in proportion for the 100..300-cell directions (worst case (n1+n2)/2,
    standard deviation 0.3*sqrt(n1+n2))."""
    return 4.0*max(1.0, (len(a) + len(b) - 2)/24.0)


def pert_scale(W, Wp, absq, transpose=False):
    """Bound of the change of (P |q|) under node perturbations of a few ulp."""
    if Wp is None:
        return 0.0
    f = ref_apply_T if transpose else ref_apply
    return np.maximum(f(Wp, absq) - f(W, absq), 0.0)


def ref_apply(W, v):
    out = np.tensordot(W[0], v, axes=(1, 0))                    # (a, j, k)
    out = np.tensordot(W[1], out, axes=(1, 1)).transpose(1, 0, 2)  # (a, b, k)
    out = np.tensordot(out, W[2], axes=(2, 1))                  # (a, b, c)
    return out


def ref_apply_T(W, y):
    return ref_apply([w.T for w in W], y)


def cell_classes(a, b):
    """Per target cell: index of the (extended) source cell that contains it
    entirely, or -1 if it overlaps several; and flag 'outside' (entirely
    beyond the source interval)."""
    n1 = len(a)-1
    lo, hi = b[:-1], b[1:]
    k = np.clip(np.searchsorted(a, lo, side='right')-1, 0, n1-1)
    lo_s = a[:-1].astype(float).copy()
    hi_s = a[1:].astype(float).copy()
    lo_s[0] = -np.inf
    hi_s[-1] = np.inf
    single = (lo_s[k] <= lo) & (hi <= hi_s[k])
    outside = (hi <= a[0]) | (lo >= a[-1])
    return np.where(single, k, -1), outside


def _worst(err, tol):
    r = err/np.maximum(tol, 1e-300)
    i = np.unravel_index(int(np.argmax(r)), r.shape)
    return i, float(r[i])


def _where(info, idx):
    """Discriminating feature of an output cell: inside / outside / straddle
    (w.r.t. the source region) and single / multi source cells."""
    tags = []
    multi = False
    for d in range(3):
        a, b = info['n1'][d], info['n2'][d]
        lo, hi = b[idx[d]], b[idx[d]+1]
        if hi <= a[0] or lo >= a[-1]:
            tags.append('out')
        elif lo < a[0] or hi > a[-1]:
            tags.append('straddle')
        else:
            tags.append('in')
        k, _ = cell_classes(a, b)
        multi |= k[idx[d]] < 0
    reg = 'outside' if 'out' in tags else (
        'straddle' if 'straddle' in tags else 'inside')
    return f"{reg}:{'multi' if multi else 'single'}"


def _classify_pair(rec, ps, info, g1, g2):
    rec.cls(f"kind={ps['kind']}", f"arith={ps['arith']}",
            f"conserving={info['conserving']}",
            f"identical={info['identical']}")
    for r in sorted(set(info['rels'])):
        rec.cls(f"rel={r}")
    n1, n2 = g1.n_cells, g2.n_cells
    rec.cls('ratio=' + ('finer' if n2 > n1 else
                        'coarser' if n2 < n1 else 'equal'))
    if 1 in g1.shape_cells or 1 in g2.shape_cells:
        rec.cls('has_1cell_dir')
    if 12 in g1.shape_cells or 12 in g2.shape_cells:
        rec.cls('has_12cell_dir')
    if max(max(g1.shape_cells), max(g2.shape_cells)) >= 100:
        rec.cls('has_100+cell_dir')
    if not info['lattice']:
        rec.cls(f"widths={ps['widths']}")
    if not info['lattice']:
        rec.cls('kappa=' + ('<1e2' if info['kappa'] < 1e2 else
                            '<1e4' if info['kappa'] < 1e4 else '>=1e4'))


def _nontrivial(info, vs, v):
    if info['identical'] or vs['hetero'] == 'homog':
        return False
    if np.log10(v.max()/v.min()) <= 0.5:
        return False
    return any((cell_classes(info['n1'][d], info['n2'][d])[0] < 0).any()
               for d in range(3))


def _nt_key(ps, extra):
    return [effective_rels(ps), ps['na'], ps['nb'], ps['arith'], ps['seed'],
            extra]


# ========================================================= sub: interp
def interp_strategy(kinds=None):
    return st.fixed_dictionaries({
        'pair': pair_spec(kinds),
        'values': values_spec(),
        'corder': st.booleans(),
        # memory layout of the values (None: 'corder' decides, as before)
        'layout': st.sampled_from([None, None, 'strided', 'negstride']),
        'dtype': st.sampled_from(['f8', 'f8', 'f8', 'f4']),
        # extra calls: extrapolate=False (documented to be without effect
        # for 'volume'); 1/values in log mode
        'extrapolate': st.booleans(),
        'reciprocal': st.booleans(),
    })


def _layout(v, layout):
    """The same values as a non-contiguous view."""
    if layout == 'strided':
        big = np.zeros(tuple(2*n for n in v.shape), dtype=v.dtype)
        big[::2, ::2, ::2] = v
        return big[::2, ::2, ::2]
    if layout == 'negstride':
        return np.ascontiguousarray(v[::-1, ::-1, ::-1])[::-1, ::-1, ::-1]
    return v


def case_interp(spec, rec):
    from emg3d import maps
    import discretize
    ps, vs = spec['pair'], spec['values']
    g1, g2, info = build_pair(ps)
    v = build_values(vs, g1.shape_cells)
    if spec['corder']:
        v = np.ascontiguousarray(v)
    layout = spec.get('layout', None)
    f4 = spec.get('dtype', 'f8') == 'f4'
    if f4:
        # single precision input (accepted: the output is allocated with the
        # dtype of the values); the checker works with the rounded values
        # (F-ordered only: every dtype x layout is one more compilation)
        v = np.asfortranarray(v.astype(np.float32))
        layout = None
    v = _layout(v, layout)
    vpass = v                      # what emg3d gets
    vin = v.copy()
    v = np.asarray(v, dtype=float)
    tolk = C_EPS*info['kappa']
    if f4:
        # accumulation in single precision: one rounding per added term
        # (bound: pieces of the merged node set within one target cell, at
        # most n+2 per direction) plus log10 / 10** / storage
        nterm = int(np.prod([n + 2 for n in g1.shape_cells]))
        tolk = tolk + (nterm + 16)*float(np.finfo(np.float32).eps)
    W = ref_matrices(info)
    Wp = ref_matrices_pert(info)
    P = discretize.utils.volume_average(g1, g2)
    vol1 = g1.cell_volumes.reshape(g1.shape_cells, order='F')
    vol2 = g2.cell_volumes.reshape(g2.shape_cells, order='F')
    cls = [cell_classes(info['n1'][d], info['n2'][d]) for d in range(3)]
    single = (cls[0][0][:, None, None] >= 0) & (cls[1][0][None, :, None] >= 0) \
        & (cls[2][0][None, None, :] >= 0)
    outside = cls[0][1][:, None, None] | cls[1][1][None, :, None] | \
        cls[2][1][None, None, :]
    nearest = v[np.ix_(np.maximum(cls[0][0], 0), np.maximum(cls[1][0], 0),
                       np.maximum(cls[2][0], 0))]
    vmin, vmax = v.min(), v.max()

    for log in (False, True):
        mode = 'log' if log else 'lin'
        out = maps.interpolate(g1, vpass, g2, method='volume', log=log)
        if out.shape != tuple(g2.shape_cells):
            raise Violation(f"shape:{mode}", f"{out.shape} vs {g2.shape_cells}")
        if spec.get('extrapolate', False):
            o2 = maps.interpolate(g1, vpass, g2, method='volume', log=log,
                                  extrapolate=False)
            if not np.array_equal(out, o2):
                raise Violation(
                    f"extrapolate_has_effect:{mode}",
                    "method='volume' is documented to use nearest values "
                    "outside the source grid independent of `extrapolate`, "
                    "but extrapolate=False changed "
                    f"{int(np.sum(out != o2))} of {out.size} cells")
        out = np.asarray(out, dtype=float)
        if log and spec.get('reciprocal', False):
            # "the output is the same for conductivities and resistivities"
            o2 = maps.interpolate(g1, 1.0/v, g2, method='volume', log=True)
            lim = 3*tolk*(1 + np.log(10)*np.abs(np.log10(v)).max())
            with np.errstate(all='ignore'):
                bad = ~(np.abs(1.0/o2 - out) <= lim*out)
            if bad.any():
                raise Violation(
                    "res_vs_cond:interpolate",
                    "log mode: 1/interpolate(1/v) differs from interpolate(v)"
                    f" by {float(np.max(np.abs(1.0/o2-out)/out)):.2e} rel")
        if not np.all(np.isfinite(out)):
            raise Violation(f"not_finite:{mode}", "non-finite output for "
                            "positive finite input")
        # quantity that is averaged, and the result in that domain
        q = np.log10(v) if log else v
        with np.errstate(all='ignore'):
            r = np.log10(out) if log else out
        if log and not np.all(np.isfinite(r)):
            raise Violation("not_positive:log", "non-positive output")
        one = 1.0 if log else 0.0      # rounding floor of log10 / 10**

        # checker-side reference and tolerance terms
        ref = ref_apply(W, q)
        sc = ref_apply(W, np.abs(q)) + one
        pert = pert_scale(W, Wp, np.abs(q))

        # (c) conservation on same-region pairs ------------------------------
        if info['conserving']:
            i1 = float(np.sum(q*vol1))
            i2 = float(np.sum(r*vol2))
            isc = float(np.sum((np.abs(q) + one)*vol1))
            if abs(i1 - i2) > tolk*isc + float(np.sum(pert*vol2)):
                raise Violation(
                    f"not_conserved:{mode}",
                    f"integral in {i1:.15e}, out {i2:.15e} (scale {isc:.3e}); "
                    f"rels {info['rels']}, shapes {g1.shape_cells}->"
                    f"{g2.shape_cells}")

        # (d) range ----------------------------------------------------------
        rt = tolk*(10.0 if log else 1.0)
        if out.max() > vmax*(1 + rt):
            i = np.unravel_index(int(np.argmax(out)), out.shape)
            raise Violation(f"range:{mode}:above:{_where(info, i)}",
                            f"max out {out.max():.15e} > max in {vmax:.15e}")
        if out.min() < vmin*(1 - rt):
            i = np.unravel_index(int(np.argmin(out)), out.shape)
            raise Violation(f"range:{mode}:below:{_where(info, i)}",
                            f"min out {out.min():.15e} < min in {vmin:.15e}")

        # (e) identity between equal grids -------------------------------------
        if info['identical']:
            if np.any(np.abs(out - v) > rt*v):
                raise Violation(f"identity:{mode}",
                                "equal grids: output differs from input by "
                                f"{np.max(np.abs(out-v)/v):.2e} rel")

        # (f) nearest value: cells within one (extended) source cell ----------
        bad = single & (np.abs(out - nearest) > rt*nearest)
        if bad.any():
            i = tuple(int(k[0]) for k in np.nonzero(bad))
            name = 'nearest_fill' if outside[i] else 'single_cell_value'
            raise Violation(
                f"{name}:{mode}",
                f"output cell {i} lies in one (extended) source cell with "
                f"value {nearest[i]:.15e} but got {out[i]:.15e}; "
                f"rels {info['rels']}")

        # (b) discretize operator ------------------------------------------
        dref = (P @ q.ravel('F')).reshape(g2.shape_cells, order='F')
        # scale: the larger of both operators' |P||q| (a weight of rounding
        # size between nodes coinciding only up to rounding may be present
        # in one operator and absent in the other)
        dsc = np.maximum(sc, (abs(P) @ np.abs(q).ravel('F')).reshape(
            g2.shape_cells, order='F') + one)
        err = np.abs(r - dref)
        if np.any(err > tolk*dsc + pert):
            i, w = _worst(err, tolk*dsc + pert)
            raise Violation(
                f"discretize_mismatch:{mode}:{_where(info, i)}",
                f"output cell {i}: got {r[i]:.15e}, "
                f"discretize.volume_average @ values = {dref[i]:.15e}, "
                f"{w:.1e} x tolerance; rels {info['rels']}")

        # (a) checker-side reference (last: the clauses named in the property
        # are reported under their own name) ---------------------------------
        err = np.abs(r - ref)
        if np.any(err > tolk*sc + pert):
            i, w = _worst(err, tolk*sc + pert)
            raise Violation(
                f"ref_mismatch:{mode}:{_where(info, i)}",
                f"output cell {i}: got {r[i]:.15e}, reference {ref[i]:.15e} "
                f"({'log10 domain' if log else 'linear'}), {w:.1e} x "
                f"tolerance; rels {info['rels']}, shapes {g1.shape_cells}->"
                f"{g2.shape_cells}")

    if not np.array_equal(vpass, vin):
        raise Violation("input_modified", "interpolate changed its input")

    # (g) Python source of the kernel vs compiled ----------------------------
    # (a share of the cases fixed by the drawn seed; pure Python is slow)
    pyf = getattr(maps.interp_volume_average, 'py_func', None)
    if pyf is not None and (ps['seed'] % 8 == 0 or
                            g1.n_cells + g2.n_cells < 30):
        rec.cls('pyfunc')
        a = np.zeros(g2.shape_cells, order='F')
        b = np.zeros(g2.shape_cells, order='F')
        args = (g1.nodes_x, g1.nodes_y, g1.nodes_z, np.asfortranarray(v),
                g2.nodes_x, g2.nodes_y, g2.nodes_z)
        maps.interp_volume_average(*args, a, vol2.copy(order='F'))
        pyf(*args, b, vol2.copy(order='F'))
        ref = ref_apply(W, v)
        lim = tolk*ref + pert_scale(W, Wp, v)
        if np.any(np.abs(a-b) > lim):
            raise Violation("jit_vs_pyfunc:interp_volume_average",
                            "compiled kernel differs from its Python source: "
                            f"{np.max(np.abs(a-b)/ref):.2e} rel")
        if np.any(np.abs(b-ref) > lim):
            raise Violation("pyfunc_mismatch:interp_volume_average",
                            "Python source of the kernel differs from the "
                            "reference")

    # classification -------------------------------------------------------------
    _classify_pair(rec, ps, info, g1, g2)
    rec.cls(f"hetero={vs['hetero']}",
            'decades=' + ('<1' if vs['decades'] < 1 else
                          '<4' if vs['decades'] < 4 else
                          '<8' if vs['decades'] < 8 else '8'),
            f"layout={layout or ('C' if spec['corder'] and not f4 else 'F')}",
            f"dtype={'f4' if f4 else 'f8'}", f"wide={vs.get('wide', False)}",
            f"extrapolate_false={spec.get('extrapolate', False)}",
            f"reciprocal={spec.get('reciprocal', False)}",
            f"outside_cells={bool(outside.any())}",
            f"nearest_checked={bool((single & outside).any())}",
            f"multi_cells={not bool(single.all())}")
    if _nontrivial(info, vs, v):
        rec.nt(_nt_key(ps, vs['seed']))
    rec.note({'rels': info['rels'], 'shape1': list(g1.shape_cells),
              'shape2': list(g2.shape_cells), 'arith': ps['arith'],
              'kappa': float(info['kappa']),
              'lg_range': [float(np.log10(vmin)), float(np.log10(vmax))]})


# ======================================================== sub: adjoint
def adjoint_strategy():
    return st.fixed_dictionaries({
        'pair': pair_spec(),
        'xkind': st.sampled_from(['log10', 'positive', 'signed']),
        'values': values_spec(),
        'yscale': st.floats(-6.0, 6.0),
        'preload': st.booleans(),
        'seed': gen.SEED,
        # a second call with another `ngrid` onto the same `oval` (the
        # gradient accumulates source/frequency pairs with different
        # computational grids); C-ordered oval / nval
        'second': st.booleans(),
        'corder': st.booleans(),
    })


def case_adjoint(spec, rec):
    from emg3d import maps
    ps = spec['pair']
    g1, g2, info = build_pair(ps)          # g1 = model grid, g2 = comp. grid
    rng = gen.rng_of(spec['seed'], 41)
    tolk = C_EPS*info['kappa']
    W = ref_matrices(info)
    Wp = ref_matrices_pert(info)
    s1, s2 = tuple(g1.shape_cells), tuple(g2.shape_cells)
    g3 = third_grid(ps, info, 45) if spec.get('second', False) else None
    if g3 is not None:
        info3 = pair_info(g1, g3, info['lattice'], ['third']*3)
        tolk = C_EPS*max(info['kappa'], info3['kappa'])
        W3 = ref_matrices(info3)
        Wp3 = ref_matrices_pert(info3)
        s3 = tuple(g3.shape_cells)
    corder = spec.get('corder', False)

    def fwd(x):
        return maps.interpolate(g1, x, g2, method='volume', log=False)

    # three x (one per component) and three y
    v = build_values(spec['values'], s1)
    xs = []
    for c in range(3):
        vv = build_values(spec['values'], s1, salt=50+c)
        if spec['xkind'] == 'positive':
            xs.append(vv)
        elif spec['xkind'] == 'log10':
            xs.append(np.asfortranarray(np.log10(vv)))
        else:
            xs.append(np.asfortranarray(vv*rng.choice([-1.0, 1.0], size=s1)))
    ys = np.asfortranarray(
        rng.standard_normal((3, *s2))*10.0**spec['yscale'] *
        10.0**rng.uniform(-2, 2, size=(3, 1, 1, 1)))
    if spec['preload']:
        pre = np.asfortranarray(rng.standard_normal((3, *s1)) *
                                10.0**spec['yscale'])
    else:
        pre = np.zeros((3, *s1), order='F')
    if corder:
        ys = np.ascontiguousarray(ys)
    oval = pre.copy(order='C' if corder else 'F')
    ysin = ys.copy()
    maps._interp_volume_average_adj(oval=oval, ogrid=g1, nval=ys, ngrid=g2)
    if not np.array_equal(ys, ysin):
        raise Violation("adjoint_modifies_input", "nval changed")
    if g3 is not None:
        ys3 = rng.standard_normal((3, *s3))*10.0**spec['yscale'] * \
            10.0**rng.uniform(-2, 2, size=(3, 1, 1, 1))
        ys3 = np.ascontiguousarray(ys3) if corder else np.asfortranarray(ys3)
        maps._interp_volume_average_adj(oval=oval, ogrid=g1, nval=ys3,
                                        ngrid=g3)
    PTy = oval - pre

    for c in range(3):
        comp = 'xyz'[c]
        # in-place addition, componentwise reference  P^T y
        ref = ref_apply_T(W, ys[c])
        sc = ref_apply_T(W, np.abs(ys[c]))
        # `oval - pre` cancels: rounding floor eps*|pre|
        floor = 4*np.finfo(float).eps*(np.abs(pre[c]) + np.abs(oval[c]))
        floor = floor + pert_scale(W, Wp, np.abs(ys[c]), transpose=True)
        if g3 is not None:
            # both calls were added: P12^T y + P13^T y3
            ref = ref + ref_apply_T(W3, ys3[c])
            sc = sc + ref_apply_T(W3, np.abs(ys3[c]))
            floor = floor + 4*np.finfo(float).eps*sc + \
                pert_scale(W3, Wp3, np.abs(ys3[c]), transpose=True)
        err = np.abs(PTy[c] - ref)
        if np.any(err > tolk*sc + floor):
            i, w = _worst(err, tolk*sc + floor)
            raise Violation(
                f"adjoint_ref_mismatch:{comp}",
                f"(oval_after - oval_before)[{i}] = {PTy[c][i]:.15e}, "
                f"reference (P^T y) {ref[i]:.15e}, {w:.1e} x tol; rels "
                f"{info['rels']}; oval preloaded: {spec['preload']}"
                + ("; two calls (ngrid g2, then a third grid) onto one oval"
                   if g3 is not None else ""))
        # exact transposition with what interpolate() applies
        Px = fwd(xs[c])
        lhs = float(np.sum(Px*ys[c]))
        rhs = float(np.sum(xs[c]*PTy[c]))
        dsc = float(np.sum(ref_apply(W, np.abs(xs[c]))*np.abs(ys[c])))
        if g3 is not None:
            Px3 = maps.interpolate(g1, xs[c], g3, method='volume', log=False)
            lhs += float(np.sum(Px3*ys3[c]))
            dsc += float(np.sum(ref_apply(W3, np.abs(xs[c]))*np.abs(ys3[c])))
        if abs(lhs - rhs) > tolk*dsc + float(np.sum(np.abs(xs[c])*floor)):
            raise Violation(
                f"not_transpose:{comp}",
                f"<P x, y> = {lhs:.15e} but <x, P^T y> = {rhs:.15e} "
                f"(scale {dsc:.3e}); rels {info['rels']}, shapes {s1}->{s2}")

    # single entries: P[i, j] from both sides -------------------------------
    n1 = int(np.prod(s1))
    for _ in range(2):
        j = int(rng.integers(0, n1))
        ej = np.zeros(s1, order='F')
        ej[np.unravel_index(j, s1, order='F')] = 1.0
        col = fwd(ej)
        cmax = float(np.abs(col).max())
        # (entries of rounding size - slivers between nodes that coincide
        # only up to rounding - are not compared one by one)
        nz = np.flatnonzero(np.abs(col.ravel('F')) > 1e-6*cmax)
        if nz.size == 0:
            continue
        i = int(nz[rng.integers(0, nz.size)])
        ei = np.zeros((3, *s2), order='F')
        c = int(rng.integers(0, 3))
        ei[(c, *np.unravel_index(i, s2, order='F'))] = 1.0
        o = np.zeros((3, *s1), order='F')
        maps._interp_volume_average_adj(oval=o, ogrid=g1, nval=ei, ngrid=g2)
        pij_f = col.ravel('F')[i]
        pij_a = o[c].ravel('F')[j]
        io = np.unravel_index(i, s2, order='F')
        sliver = 0.0 if info['lattice'] else sum(
            2*_node_ulps(info['n1'][d], info['n2'][d])*np.finfo(float).eps *
            max(np.abs(info['n1'][d]).max(), np.abs(info['n2'][d]).max()) /
            info['h2'][d][io[d]] for d in range(3))
        if abs(pij_f - pij_a) > tolk*cmax + sliver:
            raise Violation(
                "entry_mismatch",
                f"P[{i},{j}] forward {pij_f:.15e} vs adjoint {pij_a:.15e}")
        others = [k for k in range(3) if k != c]
        if np.any(o[others] != 0):
            raise Violation("adjoint_component_leak",
                            f"component {c} leaked into others")

    _classify_pair(rec, ps, info, g1, g2)
    rec.cls(f"x={spec['xkind']}", f"preload={spec['preload']}",
            f"second_ngrid={g3 is not None}", f"corder={corder}",
            f"wide={spec['values'].get('wide', False)}")
    if _nontrivial(info, spec['values'], v):
        rec.nt(_nt_key(ps, spec['seed']))
    rec.note({'rels': info['rels'], 'shape1': list(s1), 'shape2': list(s2)})


# ========================================================== sub: model
# keyword arguments of Model.interpolate_to_grid ("passed through to
# emg3d.maps.interpolate"); log=True is not passed to the three L-mappings
# (it would take log10 of negative numbers).
OPTS = {
    'none': {},
    'log_false': {'log': False},
    'log_true': {'log': True},
    'extrapolate_false': {'extrapolate': False},
    'method_volume': {'method': 'volume'},
    'all': {'method': 'volume', 'extrapolate': False, 'log': True},
}


def model_strategy():
    return st.fixed_dictionaries({
        'pair': pair_spec(),
        'values': values_spec(),
        'case': st.sampled_from(gen.CASES),
        'mur': st.booleans(),
        'epsr': st.booleans(),
        # second use of the same Model object after its values were changed
        'reuse': st.sampled_from(['inplace', 'inplace', 'setter', 'none']),
        'reuse_map': st.sampled_from(gen.MAPPINGS),
        # structure of mu_r / epsilon_r
        'mukind': st.sampled_from(['noise', 'blocks', 'spike', 'layered']),
        'opts': st.sampled_from(['none', 'none', 'log_false', 'log_true',
                                 'extrapolate_false', 'method_volume',
                                 'all']),
        # where the Model object / the target mesh object come from
        'prov': st.sampled_from(['fresh', 'fresh', 'copy', 'dict', 'pickle',
                                 'scalar']),
        'gprov': st.sampled_from(['fresh', 'fresh', 'copy', 'dict']),
        # further interpolations with the same objects (third grid)
        'multi': st.sampled_from(['none', 'two_targets', 'two_sources',
                                  'chain']),
    })


def _unit_pattern(rng, shape, kind):
    """Array in [0, 1] with the given structure."""
    shape = tuple(shape)
    if kind == 'blocks':
        t = np.full(shape, rng.uniform())
        for _ in range(3):
            lo = [int(rng.integers(0, n)) for n in shape]
            hi = [int(rng.integers(l+1, n+1)) for l, n in zip(lo, shape)]
            t[lo[0]:hi[0], lo[1]:hi[1], lo[2]:hi[2]] = rng.choice(
                [0.0, 1.0, rng.uniform()])
    elif kind == 'spike':
        t = np.zeros(shape)
        t[tuple(int(rng.integers(0, n)) for n in shape)] = 1.0
    else:                                                      # layered
        ax = int(rng.integers(0, 3))
        sh = [1, 1, 1]
        sh[ax] = shape[ax]
        t = np.broadcast_to(rng.uniform(size=shape[ax]).reshape(sh),
                            shape).copy()
    return t


def _geometry(info):
    """Reference matrices and single-source-cell classification of a pair."""
    cls = [cell_classes(info['n1'][d], info['n2'][d])[0] for d in range(3)]
    single = (cls[0][:, None, None] >= 0) & (cls[1][None, :, None] >= 0) & \
        (cls[2][None, None, :] >= 0)
    return {'W': ref_matrices(info), 'Wp': ref_matrices_pert(info),
            'tolk': C_EPS*info['kappa'], 'single': single, 'info': info,
            'idx': np.ix_(*[np.maximum(c, 0) for c in cls])}


def _check_average(name, m, x_in, p, log, geo):
    """`p` is the volume average of `x_in` (of log10 if `log`), and equals
    the source value where the output cell lies in one (extended) cell."""
    W, Wp, tolk, info = geo['W'], geo['Wp'], geo['tolk'], geo['info']
    mode = 'log' if log else 'lin'
    x_in = np.asarray(x_in, float)
    p = np.asarray(p, float)
    if p.shape != geo['single'].shape:
        raise Violation(f"model_shape:{name}", f"{p.shape} ({m})")
    if not np.all(np.isfinite(p)):
        raise Violation(f"model_not_finite:{name}:{mode}", f"{m}")
    if log:
        q = np.log10(x_in)
        with np.errstate(all='ignore'):
            r = np.log10(p)
        if not np.all(np.isfinite(r)):
            raise Violation(f"model_not_positive:{name}", f"{m}")
    else:
        q, r = x_in, p
    one = 1.0 if log else 0.0
    ref = ref_apply(W, q)
    sc = ref_apply(W, np.abs(q)) + one
    lim = 3*tolk*sc + pert_scale(W, Wp, np.abs(q))
    err = np.abs(r - ref)
    if np.any(err > lim):
        i, w = _worst(err, lim)
        raise Violation(
            f"model_average:{name}:{mode}:{_where(info, i)}",
            f"{name}, cell {i}: got {r[i]:.15e}, volume average of the "
            f"{'log10 of the ' if log else ''}input {ref[i]:.15e} "
            f"({w:.1e} x tol; mapping {m}); rels {info['rels']}")
    near = x_in[geo['idx']]
    bad = geo['single'] & (np.abs(p - near) > 10*tolk*np.abs(near))
    if bad.any():
        i = tuple(int(k[0]) for k in np.nonzero(bad))
        raise Violation(
            f"model_single_cell:{name}:{mode}",
            f"{name}: output cell {i} lies in one (extended) source cell "
            f"with value {near[i]:.15e} but got {p[i]:.15e} ({m}); rels "
            f"{info['rels']}")


PROPS = ('property_x', 'property_y', 'property_z', 'mu_r', 'epsilon_r')


def _same_models(got, ref, sig, what):
    for name in PROPS:
        a, b = getattr(got, name), getattr(ref, name)
        if (a is None) != (b is None):
            raise Violation(f"{sig}:{name}:presence", what)
        if a is None:
            continue
        if a.shape != b.shape or not np.allclose(a, b, rtol=1e-12, atol=0):
            d = float(np.max(np.abs(a-b)/np.abs(b))) \
                if a.shape == b.shape else np.inf
            raise Violation(f"{sig}:{name}", f"{what}: differs by {d:.2e} rel")


def case_model(spec, rec):
    import pickle
    import emg3d
    ps, vs = spec['pair'], spec['values']
    g1, g2, info = build_pair(ps)
    case = spec['case']
    prov = spec.get('prov', 'fresh')
    gprov = spec.get('gprov', 'fresh')
    oname = spec.get('opts', 'none')
    mukind = spec.get('mukind', 'noise')
    geo = _geometry(info)
    tolk, W, Wp = geo['tolk'], geo['W'], geo['Wp']
    s1 = g1.shape_cells
    sig = {'x': build_values(vs, s1, salt=60)}
    if case in ('HTI', 'triaxial'):
        sig['y'] = build_values(vs, s1, salt=61)
    if case in ('VTI', 'triaxial'):
        sig['z'] = build_values(vs, s1, salt=62)
    rng = gen.rng_of(vs['seed'], 63)
    mur = np.asfortranarray(rng.uniform(0.5, 5, size=s1)) \
        if spec['mur'] else None
    epsr = np.asfortranarray(rng.uniform(1, 80, size=s1)) \
        if spec['epsr'] else None
    if mukind != 'noise':
        rng2 = gen.rng_of(vs['seed'], 64)
        if mur is not None:
            mur = np.asfortranarray(0.5 + 4.5*_unit_pattern(rng2, s1, mukind))
        if epsr is not None:
            epsr = np.asfortranarray(1 + 79*_unit_pattern(rng2, s1, mukind))
    if prov == 'scalar':
        # Model(grid, 2.0, mu_r=1.) : homogeneous, given as numbers
        sig = {k: np.full(s1, float(v[0, 0, 0]), order='F')
               for k, v in sig.items()}
        mur = None if mur is None else np.full(s1, float(mur[0, 0, 0]),
                                               order='F')
        epsr = None if epsr is None else np.full(s1, float(epsr[0, 0, 0]),
                                                 order='F')

    def derive(model):
        if prov == 'copy':
            return model.copy()
        if prov == 'dict':
            return emg3d.Model.from_dict(model.to_dict())
        if prov == 'pickle':
            return pickle.loads(pickle.dumps(model))
        return model

    # target mesh object
    if gprov == 'copy':
        g2t = g2.copy()
    elif gprov == 'dict':
        g2t = emg3d.TensorMesh.from_dict(g2.to_dict())
    else:
        g2t = g2
    if g2t is not g2:
        for a, b in zip((g2.nodes_x, g2.nodes_y, g2.nodes_z),
                        (g2t.nodes_x, g2t.nodes_y, g2t.nodes_z)):
            if not np.array_equal(a, b):
                raise Violation("mesh_copy_differs",
                                f"TensorMesh {gprov}: nodes differ")

    # not exactly equal, but equal within the tolerance of TensorMesh.__eq__
    # (widths and origin to 1e-5 relative; evaluated here with 2e-5, not by
    # emg3d):
    # the property says nothing about which of the two answers is given -
    # the model itself, or a model that satisfies everything below
    near_equal = not info['identical'] and \
        tuple(g1.shape_cells) == tuple(g2.shape_cells) and all(
            np.allclose(info['h1'][d], info['h2'][d], rtol=2e-5, atol=0)
            for d in range(3)) and np.allclose(
                np.asarray(g1.origin, float), np.asarray(g2.origin, float),
                rtol=2e-5, atol=0)

    results = {}
    logcond = {}
    logavg = {}
    for m in gen.MAPPINGS:
        lmap = m.startswith('L')
        opts = dict(OPTS[oname])
        if lmap and opts.get('log', False):
            del opts['log']
        log = False if lmap else opts.get('log', True)
        # the average is that of log10(conductivity) (up to sign / factor)
        logavg[m] = lmap or log
        if prov == 'scalar':
            def num(v):
                return None if v is None else float(
                    np.asarray(v)[0, 0, 0])
            model = emg3d.Model(
                g1, num(gen.map_forward(m, sig['x'])),
                num(gen.map_forward(m, sig.get('y'))),
                num(gen.map_forward(m, sig.get('z'))), mu_r=num(mur),
                epsilon_r=num(epsr), mapping=m)
        else:
            model = derive(emg3d.Model(
                g1, gen.map_forward(m, sig['x']),
                gen.map_forward(m, sig.get('y')),
                gen.map_forward(m, sig.get('z')), mu_r=mur, epsilon_r=epsr,
                mapping=m))
        out = model.interpolate_to_grid(g2t, **opts)
        if info['identical']:
            if out is not model:
                raise Violation("equal_grid_not_self",
                                "interpolate_to_grid on an equal grid did "
                                f"not return the model itself ({m})")
            continue
        if near_equal and out is model:
            continue
        if out is model:
            raise Violation("different_grid_returns_self", f"mapping {m}")
        if not (out.grid == g2) or out.shape != tuple(g2.shape_cells):
            raise Violation("model_wrong_grid", f"mapping {m}")
        if out.map.name != m or out.case != case:
            raise Violation("model_wrong_mapping_or_case",
                            f"{out.map.name}/{out.case} vs {m}/{case}")
        results[m] = out
        for k in 'xyz':
            p = getattr(out, 'property_'+k)
            if (k in sig) != (p is not None):
                raise Violation("model_wrong_case", f"property_{k}, {m}")
            if p is None:
                continue
            if not logavg[m]:
                # log=False given for a (non-log) mapping: plain average of
                # the property itself
                _check_average('property_'+k, m, gen.map_forward(m, sig[k]),
                               p, False, geo)
                continue
            with np.errstate(all='ignore'):
                cond = gen.map_backward(m, p)
                lc = np.log10(cond)
            if not np.all(np.isfinite(lc)):
                raise Violation(f"model_not_finite:{m}", f"property_{k}")
            logcond[m, k] = lc
        for name, arr in (('mu_r', mur), ('epsilon_r', epsr)):
            p = getattr(out, name)
            if (arr is None) != (p is None):
                raise Violation(f"model_{name}_presence", m)
            if arr is not None:
                if p.min() < arr.min()*(1-10*tolk) or \
                        p.max() > arr.max()*(1+10*tolk):
                    raise Violation(f"model_range:{name}",
                                    f"[{p.min()}, {p.max()}] leaves "
                                    f"[{arr.min()}, {arr.max()}] ({m})")
                # mu_r / epsilon_r go through the same call as the
                # properties: averaged in the same mode
                _check_average(name, m, arr, p, log, geo)

    # same conductivities whatever the parametrisation ---------------------------
    lm = [m for m in gen.MAPPINGS if m in results and logavg[m]]
    if lm:
        base = results[lm[0]]
        for m in lm[1:]:
            for k in 'xyz':
                if k not in sig:
                    continue
                a = gen.map_backward(lm[0], getattr(base, 'property_'+k))
                b = gen.map_backward(m, getattr(results[m], 'property_'+k))
                lim = 3*tolk*(1 + np.log(10)*np.abs(np.log10(sig[k])).max())
                if np.any(np.abs(a - b) > lim*a):
                    name = 'res_vs_cond' if m == 'Resistivity' and \
                        lm[0] == 'Conductivity' else f'mapping_vs_cond:{m}'
                    raise Violation(
                        name, f"property_{k}: conductivities differ by "
                        f"{np.max(np.abs(a-b)/a):.2e} rel between "
                        f"{lm[0]} and {m} models; rels {info['rels']}")

    # ... and they are the volume average of log10(sigma) ------------------------
    for (m, k), lc in logcond.items():
        q = np.log10(sig[k])
        ref = ref_apply(W, q)
        sc = ref_apply(W, np.abs(q)) + 1.0
        err = np.abs(lc - ref)
        lim = 3*tolk*sc + pert_scale(W, Wp, np.abs(q))
        if np.any(err > lim):
            i, w = _worst(err, lim)
            raise Violation(
                f"model_log_average:{m}:{_where(info, i)}",
                f"property_{k}, cell {i}: log10 sigma {lc[i]:.15e} vs "
                f"volume average of log10 sigma {ref[i]:.15e} "
                f"({w:.1e} x tol); rels {info['rels']}")

    if near_equal:
        rec.cls('near_equal_grids',
                f"near_equal_returns_self={not results}")
        return

    def vals(salt0, shape=s1):
        v = {'x': build_values(vs, shape, salt=salt0)}
        if 'y' in sig:
            v['y'] = build_values(vs, shape, salt=salt0+1)
        if 'z' in sig:
            v['z'] = build_values(vs, shape, salt=salt0+2)
        return v

    def make(v, mu, ep, m, grid=g1):
        return derive(emg3d.Model(
            grid, gen.map_forward(m, v['x']), gen.map_forward(m, v.get('y')),
            gen.map_forward(m, v.get('z')),
            mu_r=None if mu is None else mu.copy(),
            epsilon_r=None if ep is None else ep.copy(), mapping=m))

    # a Model is interpolated from its *current* values (second use of one
    # object after an in-place edit or an assignment), and is not modified
    reuse = spec.get('reuse', 'none')
    if reuse != 'none' and not info['identical']:
        m = spec.get('reuse_map', 'Resistivity')
        model = make(sig, mur, epsr, m)
        before = {k: np.array(v, copy=True)
                  for k, v in model.to_dict().items()
                  if isinstance(v, np.ndarray)}
        model.interpolate_to_grid(g2)
        after = model.to_dict()
        for k, v in before.items():
            if not np.array_equal(v, after[k]):
                raise Violation(f"model_modified_by_interpolation:{k}",
                                f"interpolate_to_grid changed {k} of the "
                                f"model it was called on ({m})")
        new = vals(80)
        mur2 = None if mur is None else np.asfortranarray(
            rng.uniform(0.5, 5, size=s1))
        epsr2 = None if epsr is None else np.asfortranarray(
            rng.uniform(1, 80, size=s1))
        for k in new:
            if reuse == 'inplace':
                getattr(model, 'property_'+k)[...] = gen.map_forward(m, new[k])
            else:
                setattr(model, 'property_'+k, gen.map_forward(m, new[k]))
        if mur2 is not None:
            if reuse == 'inplace':
                model.mu_r[...] = mur2
            else:
                model.mu_r = mur2
        if epsr2 is not None:
            if reuse == 'inplace':
                model.epsilon_r[...] = epsr2
            else:
                model.epsilon_r = epsr2
        got = model.interpolate_to_grid(g2)
        ref = make(new, mur2, epsr2, m).interpolate_to_grid(g2)
        for name in PROPS:
            a, b = getattr(got, name), getattr(ref, name)
            if (a is None) != (b is None):
                raise Violation(f"model_reuse:{name}:presence", f"{m}")
            if a is None:
                continue
            if not np.allclose(a, b, rtol=1e-12, atol=0):
                raise Violation(
                    f"model_reuse:{name}:{reuse}",
                    f"second interpolate_to_grid of one Model after its "
                    f"values were changed ({reuse}) differs from a fresh "
                    f"Model with those values by "
                    f"{float(np.max(np.abs(a-b)/np.abs(b))):.2e} rel ({m})")
        rec.cls(f"reuse={reuse}")

    # the same Model / mesh objects in further interpolations: the result
    # depends on (values, source grid, target grid) only ------------------------
    multi = spec.get('multi', 'none')
    if multi != 'none' and not info['identical']:
        m = spec.get('reuse_map', 'Resistivity')
        lmap = m.startswith('L')
        g3 = None if multi == 'chain' else third_grid(ps, info, 95)
        if multi == 'chain':
            # g2 as target, then as source; the input of the second step is
            # a Model produced by interpolation
            out2 = make(sig, mur, epsr, m).interpolate_to_grid(g2)
            keep = {n: None if getattr(out2, n) is None else
                    np.array(getattr(out2, n), copy=True) for n in PROPS}
            back = out2.interpolate_to_grid(g1)
            if back is out2 or not (back.grid == g1):
                raise Violation("model_chain:wrong_grid", f"{m}")
            geo21 = _geometry(pair_info(g2, g1, info['lattice'],
                                        ['back:'+r for r in info['rels']]))
            for n in PROPS:
                if (keep[n] is None) != (getattr(back, n) is None):
                    raise Violation(f"model_chain:{n}:presence", f"{m}")
                if keep[n] is None:
                    continue
                if not np.array_equal(keep[n], getattr(out2, n)):
                    raise Violation(f"model_modified_by_interpolation:{n}",
                                    "interpolate_to_grid changed the model "
                                    f"it was called on ({m}, second step)")
                _check_average('chain:'+n, m, keep[n], getattr(back, n),
                               not lmap, geo21)
            rec.cls('multi=chain')
        elif g3 is None or g3 == g1 or g3 == g2:
            rec.cls('multi=skipped_equal_third_grid')
        elif multi == 'two_targets':
            model = make(sig, mur, epsr, m)
            model.interpolate_to_grid(g2)
            got = model.interpolate_to_grid(g3)
            if not (got.grid == g3):
                raise Violation("model_second_target:wrong_grid", f"{m}")
            ref = make(sig, mur, epsr, m).interpolate_to_grid(fresh_mesh(g3))
            _same_models(got, ref, "model_second_target",
                         f"one Model ({m}) interpolated to a grid and then to"
                         " another grid vs a new Model interpolated to the "
                         "latter")
            rec.cls('multi=two_targets')
        else:
            # two Models on different grids -> the same target mesh object
            make(sig, mur, epsr, m).interpolate_to_grid(g3)
            s2 = g2.shape_cells
            vb = vals(90, s2)
            rng3 = gen.rng_of(vs['seed'], 96)
            mub = None if mur is None else np.asfortranarray(
                rng3.uniform(0.5, 5, size=s2))
            epb = None if epsr is None else np.asfortranarray(
                rng3.uniform(1, 80, size=s2))
            got = make(vb, mub, epb, m, g2).interpolate_to_grid(g3)
            ref = make(vb, mub, epb, m, fresh_mesh(g2)).interpolate_to_grid(
                fresh_mesh(g3))
            _same_models(got, ref, "model_second_source",
                         f"Model ({m}) interpolated to a mesh object that "
                         "was the target of another Model before vs the "
                         "same with new mesh objects")
            rec.cls('multi=two_sources')

    _classify_pair(rec, ps, info, g1, g2)
    rec.cls(f"case={case}", f"mur={spec['mur']}", f"epsr={spec['epsr']}",
            f"opts={oname}", f"prov={prov}", f"gprov={gprov}",
            f"wide={vs.get('wide', False)}")
    if spec['mur'] or spec['epsr']:
        rec.cls(f"mukind={mukind}")
    if _nontrivial(info, vs, sig['x']):
        rec.nt(_nt_key(ps, [vs['seed'], case]))
    rec.note({'rels': info['rels'], 'shape1': list(s1),
              'shape2': list(g2.shape_cells), 'case': case})


# ======================================================== sub: weights
def weights_strategy():
    return st.fixed_dictionaries({
        'rel': st.sampled_from(RELS),
        'na': NCELL_W, 'nb': NCELL_W,
        'arith': st.sampled_from(['lattice', 'float']),
        'widths': st.sampled_from(['uniform', 'stretch', 'random',
                                   'boundary']),
        'lgunit': st.integers(-4, 8),
        'scale': gen.lgfloat(1e-2, 1e4),
        'offset': st.sampled_from([0.0, 1.0, 30.0, 1000.0]),
        'seed': gen.SEED,
    })


def case_weights(spec, rec):
    from emg3d import maps
    rng = gen.rng_of(spec['seed'], 71)
    lattice = spec['arith'] == 'lattice'
    if lattice:
        a, b = _axis_lattice(spec['rel'], spec['na'], spec['nb'], rng)
        u = 2.0**spec['lgunit']
        off = int(rng.integers(-10**6, 10**6)) if spec['offset'] else 0
        a = (a + off)*u
        b = (b + off)*u
        kappa = 1.0
    else:
        h1, o1, h2, o2 = _axis_float(spec['rel'], spec['na'], spec['nb'], rng,
                                     spec['widths'], spec['scale'],
                                     spec['offset'])
        a = o1 + np.r_[0.0, np.cumsum(h1)]
        b = o2 + np.r_[0.0, np.cumsum(h2)]
        if np.any(np.diff(a) <= 0) or np.any(np.diff(b) <= 0):
            raise HarnessError("generator produced non-increasing nodes")
        kappa = 1.0 + max(np.abs(a).max(), np.abs(b).max())/min(
            np.diff(a).min(), np.diff(b).min())
    a = np.ascontiguousarray(a, dtype=float)
    b = np.ascontiguousarray(b, dtype=float)
    n1, n2 = len(a)-1, len(b)-1
    res = {}
    fn = getattr(maps, '_volume_average_weights', None)
    if fn is None or not hasattr(fn, 'py_func'):
        # private function / not compiled (NUMBA_DISABLE_JIT): nothing to
        # compare - not a violation of the property
        raise Inconclusive("private _volume_average_weights(.py_func) absent")
    for name, fn in (('jit', maps._volume_average_weights),
                     ('py', maps._volume_average_weights.py_func)):
        w, ii, io = fn(a, b)
        w, ii, io = np.asarray(w), np.asarray(ii), np.asarray(io)
        if not (len(w) == len(ii) == len(io)):
            raise Violation(f"weights_shape:{name}", "lengths differ")
        if len(w) and (ii.min() < 0 or ii.max() > n1-1 or io.min() < 0 or
                       io.max() > n2-1):
            raise Violation(f"weights_index_range:{name}",
                            f"in {ii.min()}..{ii.max()} of {n1}, "
                            f"out {io.min()}..{io.max()} of {n2}")
        M = np.zeros((n2, n1))
        np.add.at(M, (io, ii), w)
        res[name] = (w, ii, io, M)
    Wref = ref_w1d(a, b)
    hb = np.diff(b)
    tol = C_EPS*kappa*hb[:, None]
    for name in ('jit', 'py'):
        M = res[name][3]
        # a sliver weight of rounding size may sit in the neighbouring output
        # cell: compare rows with a tolerance relative to the cell width
        if np.any(np.abs(M - Wref) > tol):
            i = np.unravel_index(int(np.argmax(np.abs(M-Wref)/tol)), M.shape)
            reg = 'outside' if (b[i[0]+1] <= a[0] or b[i[0]] >= a[-1]) \
                else 'inside'
            raise Violation(
                f"weights_ref_mismatch:{name}:{reg}",
                f"overlap of target cell {i[0]} with source cell {i[1]}: "
                f"{M[i]:.15e} vs {Wref[i]:.15e}; rel {spec['rel']}, "
                f"x_i={a.tolist()}, x_o={b.tolist()}")
        if lattice and not np.array_equal(M, Wref):
            raise Violation(f"weights_not_exact:{name}",
                            "exact lattice: weights differ from the exact "
                            "overlaps")
    wj, ij, oj, _ = res['jit']
    wp, ip, op_, _ = res['py']
    same = (len(wj) == len(wp) and np.array_equal(ij, ip) and
            np.array_equal(oj, op_) and np.array_equal(wj, wp))
    if not same:
        if lattice or np.any(np.abs(res['jit'][3]-res['py'][3]) > tol):
            raise Violation("jit_vs_pyfunc:weights",
                            "compiled _volume_average_weights differs from "
                            f"its Python source; x_i={a.tolist()}, "
                            f"x_o={b.tolist()}")
        rec.cls('jit_py_rounding_difference')
    rec.cls(f"rel={spec['rel']}", f"arith={spec['arith']}",
            f"n1={'1' if n1 == 1 else '2-6' if n1 < 7 else '7-12' if n1 < 13 else '>=100'}",
            f"n2={'1' if n2 == 1 else '2-6' if n2 < 7 else '7-12' if n2 < 13 else '>=100'}",
            f"merged_nodes={'<128' if n1+n2+2 < 128 else '<256' if n1+n2+2 < 256 else '>=256'}")
    if spec['arith'] == 'float':
        rec.cls(f"widths={spec['widths']}")
    if spec['rel'] != 'ident' and (cell_classes(a, b)[0] < 0).any():
        rec.nt([spec['rel'], n1, n2, spec['arith'], spec['seed']])
    rec.note({'rel': spec['rel'], 'x_i': a.tolist()[:6], 'x_o': b.tolist()[:6]})


SUBS = {'interp': case_interp, 'adjoint': case_adjoint, 'model': case_model,
        'weights': case_weights}


def run(ctx):
    import discretize
    # (the operator of oracle (b) and of the adjoint comparison is third
    # party code: a mismatch after an upgrade of discretize points there)
    ctx.notes['discretize_version'] = str(discretize.__version__)
    ctx.regression(SUBS)
    # general pairs, then a guaranteed share of the same-region kinds (the
    # only ones for which conservation / identity are defined)
    ctx.explore('interp', interp_strategy(), case_interp, ctx.n(2000, 8000))
    ctx.explore('interp', interp_strategy(['identical', 'same_region',
                                           'finer', 'coarser']),
                case_interp, ctx.n(600, 2500), salt=1)
    ctx.explore('adjoint', adjoint_strategy(), case_adjoint,
                ctx.n(700, 3000))
    ctx.explore('model', model_strategy(), case_model, ctx.n(700, 3000))
    ctx.explore('weights', weights_strategy(), case_weights,
                ctx.n(1500, 6000))

"""C13 - misfit and data weights follow the documented noise model and stay
untouched.

Two sub-checks:

``history``  a Hypothesis RuleBasedStateMachine on ``emg3d.Survey`` with a
             Python-side model of (noise_floor, relative_error,
             standard_deviation) and of every data set.  After every rule the
             survey (and the surveys it was copied / selected from) is
             compared with the model.
``misfit``   plain generated cases: Simulation.misfit against the checker's
             formula and against the same survey with sources, receivers and
             frequencies reordered.

``emg3d.surveys.random_noise`` draws from an unseeded generator.  The basic
oracles do not depend on the realised noise; the generator is replaced, during
the call, by one derived from a drawn seed (reproducibility).  The seeded
probes (Driver._probe_noise) compare clones that were given the same generator
state and differ in mean_noise or in the scale of the standard deviation only.
"""
import contextlib
import copy
import os
import shutil
import tempfile
import warnings

import numpy as np
from hypothesis import strategies as st
from hypothesis.stateful import RuleBasedStateMachine, initialize, rule

from vp import gen
from vp.framework import Rec, Violation

RULE = ("history: a generated survey (1x1x1 ... 3x4x3, or 10-11 items on one "
        "axis = zero-padded automatic keys; point/dipole/wire (open, closed "
        "loop)/magnetic-point sources, optional strength, absolute/relative "
        "electric/magnetic receivers on an integer lattice, optionally "
        "shifted by UTM-like constants; given as lists or as dicts with user "
        "keys whose insertion order is not the sorted order; data with NaN "
        "gaps, empty slabs and exact zeros; noise parameters through the "
        "constructor, explicit standard deviation through the setter or the "
        "data dict of the constructor) is driven through <=12 generated "
        "operations: assign "
        "noise_floor / relative_error (None, float, numpy.float64, size-1 "
        "array, (nsrc,1,1), "
        "(1,nrec,1), (1,1,nfreq), (nsrc,nrec,1), (1,nrec,nfreq), "
        "(nsrc,1,nfreq), full; arrays C-ordered, Fortran-ordered, strided "
        "views or read-only broadcast views), "
        "assign standard_deviation (full / None), assign observed data, "
        "add_noise (3 noise types, mean, min/max offset incl. exact-equality "
        "offsets and explicit inf, min_amplitude default/'half_nf'/None/float "
        "incl. exact equality, scalars as float/int/numpy.float64, add_to "
        "observed/existing/new), select (sub-sets in any "
        "order, str or list, remove_empty), copy / copy.deepcopy / pickle, "
        "to_dict/from_dict, "
        "to_file/from_file (h5, npz, json), misfit.  After every operation "
        "the survey and up to three earlier surveys are compared with the "
        "model: names, the electrode object behind every name, parameters, "
        "data, standard deviation.  A history is "
        "non-trivial if at least one add_noise/select/copy/dict/file/misfit "
        "ran while an array-valued noise parameter or explicit standard "
        "deviation was active; distinct by (config, history).  "
        "misfit: Simulation.misfit, data.residual and data.weights against "
        "the checker's formula, against the reordered survey, after "
        "clean('computed') + re-assigned noise parameters, and for "
        "Simulation.copy(computed/results/all/plain); solve cases also run "
        "compute(observed=True, **add_noise kwargs).  Non-trivial if >= 2 "
        "finite observations and an array-valued parameter; distinct by "
        "spec.")
ASSUMPTIONS = [
    "checker-side model: parameters change only through the assignments the "
    "machine itself performs; std = sqrt(nf^2 + (re*|d|)^2) evaluated with "
    "numpy on the model's copy of the data",
    "noise oracles use only realisation-independent consequences of "
    "d_noise = std*((1+i)*mean + R): |R|=1 (white), Re R = Im R "
    "(gaussian_correlated), finiteness; NaN pattern = prior NaN | "
    "|observed|<min_amplitude | offset outside [min,max] | std is NaN",
    "numpy.random.default_rng() (no arguments) is replaced during add_noise "
    "by a generator derived from the drawn seed, for replay determinism; "
    "the seeded probes additionally assume that R depends only on the "
    "generator state and the shape: clones of the survey (from_dict of "
    "to_dict(copy=True)) with the same generator state must (A) reproduce "
    "the result - otherwise nothing is concluded -, (B) change by exactly "
    "std*(1+i) for mean_noise+1, (C) give twice the noise for twice the "
    "(explicitly assigned) standard deviation; (C) only when no entry of "
    "the standard deviation is NaN or 0",
    "misfit sub-check: synthetic data are assigned and Simulation._computed "
    "is set instead of solving (10 % of the cases really solve on an 8^3 "
    "grid; not for the shapes with >= 10 items)",
    "data.weights may be 1/std^2 (code, jtvec docstring) or 1/std (misfit "
    "docstring); data.residual = synthetic - observed bit-identical; both "
    "only looked at if present in Simulation.data",
    "offsets are exact: coordinates are integers / half-integers (+ shifts "
    "that are multiples of 0.125 below 2^23), wires have 2 or 4 unique "
    "vertices so that their centre is exact, cut values are multiples of "
    "0.5",
    "an observation that is exactly 0 with a relative error only has "
    "std = 0: the misfit is then not compared",
    "not generated because the documentation does not clearly admit them: "
    "0-d arrays / ints / float32 as noise parameters, NaN entries in an "
    "explicit standard deviation, receivers=None",
]
SHARDS = {'quick': 1, 'thorough': 16}

KINDS = ['none', 'scalar', 'size1', 'src', 'rec', 'freq', 'srcrec',
         'recfreq', 'full', 'srcfreq']
FREQS = [0.1, 0.5, 1.0, 2.0, 10.0]
# only used for more than five frequencies (zero-padded automatic keys)
FREQS_MANY = FREQS + [0.05, 0.2, 0.25, 3.0, 4.0, 5.0, 8.0, 20.0]
# layouts / types in which a noise parameter is handed over (all are a float
# or a three-dimensional float ndarray, as documented)
FORMS = ['plain', 'np64', 'bcast', 'fortran', 'strided']
# constant coordinate shifts (UTM-like); all coordinates stay exact multiples
# of 0.125 below 2**23, so centres and offsets are exact in float64, while
# the y-coordinates (spacing 0.5 in float32) are not representable in float32
SHIFTS = [None, (500000.125, 6000000.25, -1000.0),
          (-350000.5, 7100000.25, 0.0)]
# user-chosen keys whose insertion order differs from their sorted order
TAGS = ['z', '10', '9', 'B', 'a', 'Zz', '2', '-1', 'y', '_x', '0']
INTERNAL = ('_noise_floor', '_relative_error', 'standard_deviation')
PNAMES = {'nf': 'noise_floor', 're': 'relative_error'}


# ------------------------------------------------------------------ helpers
def _same(a, b):
    """Bit-level equality of values incl. NaN positions."""
    a = np.asarray(a)
    b = np.asarray(b)
    if a.shape != b.shape:
        return False
    na, nb = np.isnan(a), np.isnan(b)
    if not np.array_equal(na, nb):
        return False
    return np.array_equal(a[~na], b[~nb])


def make_data(seed, salt, shape, scale, nanfrac, slabs=True, zeros=False):
    """Complex data, |d| log-uniform over 4 decades, NaN gaps, empty slabs;
    `zeros`: about 15 % of the entries are exactly 0 (drawn last: the other
    entries do not depend on the flag)."""
    rng = gen.rng_of(seed, salt)
    amp = 10.0**rng.uniform(-2, 2, size=shape)*scale
    d = amp*np.exp(1j*rng.uniform(0, 2*np.pi, size=shape))
    if nanfrac > 0:
        d[rng.random(shape) < nanfrac] = np.nan + 1j*np.nan
        if slabs:
            for ax in range(3):
                if shape[ax] > 1 and rng.random() < 0.5:
                    ind = [slice(None)]*3
                    ind[ax] = int(rng.integers(shape[ax]))
                    d[tuple(ind)] = np.nan + 1j*np.nan
    if zeros:
        z = rng.random(shape) < 0.15
        d[z & ~np.isnan(d)] = 0.0
    return d


def make_param(what, kind, seed, shape, scale, one=True, form='plain'):
    """Value handed to emg3d for a noise parameter (None, float, ndarray).
    Every call returns a fresh object (never copy() it: that would undo the
    memory layout of `form`).

    form: 'plain' Python float / C-contiguous array; 'np64' numpy.float64
    scalar (arrays: plain); 'bcast' read-only zero-stride numpy.broadcast_to
    view of an array that is constant along its last non-unit axis; 'fortran'
    Fortran-ordered array; 'strided' non-contiguous view of a larger array.

    An array kind that has a single element for this survey shape (e.g.
    'full' for 1x1x1, 'src' for one source, 'size1') is handed over as a
    3-D array only if `one` (drawn; about 1 in 6), else as a float: keeps the
    single-element-array class present without letting it dominate."""
    if kind == 'none':
        return None
    ns, nr, nf = shape
    shp = {'scalar': (), 'size1': (1, 1, 1), 'src': (ns, 1, 1),
           'rec': (1, nr, 1), 'freq': (1, 1, nf), 'srcrec': (ns, nr, 1),
           'recfreq': (1, nr, nf), 'full': (ns, nr, nf),
           'srcfreq': (ns, 1, nf)}[kind]
    rng = gen.rng_of(seed, {'nf': 21, 're': 22, 'std': 23}[what])
    if what == 'nf':
        v = 10.0**rng.uniform(-2.5, 1.5, size=shp)*scale
    elif what == 're':
        v = rng.uniform(0.01, 0.5, size=shp)
    else:
        v = 10.0**rng.uniform(-2, 1, size=shp)*scale
    if kind == 'scalar' or (v.size == 1 and not one):
        x = float(v.reshape(-1)[0])
        return np.float64(x) if form == 'np64' else x
    v = np.asarray(v, dtype=float)
    if form == 'bcast' and v.size > 1:
        ax = max(i for i in range(3) if v.shape[i] > 1)
        v = np.broadcast_to(v.take([0], axis=ax).copy(), shp)
    elif form == 'fortran':
        v = np.asfortranarray(v)
    elif form == 'strided':
        big = np.full(tuple(2*n for n in shp), 7.0*scale)
        big[::2, ::2, ::2] = v
        v = big[::2, ::2, ::2]
    return v


def full_of(value, shape):
    """Model representation: None or a full-shape float array."""
    if value is None:
        return None
    return np.array(np.broadcast_to(np.asarray(value, float), shape))


def kind_of(value):
    if value is None:
        return 'none'
    return 'array' if np.size(value) > 1 else 'scalar'


def model_std(nf, re, std, obs):
    """Checker's formula.  None if nothing is defined."""
    if std is not None:
        return std
    if nf is None and re is None:
        return None
    out = np.zeros(obs.shape)
    if nf is not None:
        out = out + nf**2
    if re is not None:
        out = out + (re*np.abs(obs))**2
    return np.sqrt(out)


@contextlib.contextmanager
def seeded_default_rng(seed):
    """Determinism only: default_rng() without arguments -> seeded."""
    orig = np.random.default_rng
    count = [0]

    def fake(*args, **kwargs):
        if args or kwargs:
            return orig(*args, **kwargs)
        count[0] += 1
        return gen.rng_of(seed, 1000 + count[0])
    np.random.default_rng = fake
    try:
        yield
    finally:
        np.random.default_rng = orig


@contextlib.contextmanager
def size1_guard(values):
    """One root-cause bucket for: a documented 3-D array input that happens
    to have a single element (e.g. the full array of a 1x1x1 survey) is
    rejected with a TypeError."""
    try:
        yield
    except TypeError as e:
        if any(isinstance(v, (np.ndarray, list)) and np.size(v) == 1
               for v in values):
            raise Violation(
                "assign:single_element_array_rejected:TypeError",
                "noise_floor / relative_error given as 3-D array with one "
                f"element (shape (1,1,1)) raises TypeError: {e}") from e
        raise


def build_geometry(seed, shape, geo=None):
    """Sources, receivers, frequencies on an integer lattice.
    Returns (src objs, rec objs, freqs, src centres, rec (centre, relative),
    expected electrode descriptions {'src': [...], 'rec': [...]}).

    geo=None: point / dipole sources around the origin (the draws of this
    part never change).  geo={'src': 'mixed', 'shift': k}: about half of the
    sources become TxElectricWire (open path or closed loop with two or four
    unique lattice vertices, so that the centre - mean of the *unique*
    vertices - is exact) or TxMagneticPoint, some get a strength; SHIFTS[k]
    is added to all absolute coordinates."""
    import emg3d
    rng = gen.rng_of(seed, 1)
    rng2 = gen.rng_of(seed, 41)
    geo = geo or {}
    mixed = geo.get('src', 'classic') == 'mixed'
    shift = SHIFTS[geo.get('shift', 0) or 0]
    sh = np.zeros(3) if shift is None else np.array(shift, dtype=float)
    ns, nr, nfq = shape
    srcs, spos, sexp = [], [], []
    for _ in range(ns):
        p = rng.integers(-3, 4, 3)
        kw = {}
        if rng.random() < 0.4:
            d = rng.integers(-2, 3, 3)
            if not d.any():
                d[int(rng.integers(3))] = 1
            q = p + d
            cls = emg3d.TxElectricDipole
            coo = (float(p[0]) + sh[0], float(q[0]) + sh[0],
                   float(p[1]) + sh[1], float(q[1]) + sh[1],
                   float(p[2]) + sh[2], float(q[2]) + sh[2])
            cen = (p + q)/2.0 + sh
        else:
            azm, elev = float(rng.integers(-9, 10)*10), float(
                rng.integers(-4, 5)*10)
            cls = emg3d.TxElectricPoint
            coo = (float(p[0]) + sh[0], float(p[1]) + sh[1],
                   float(p[2]) + sh[2], azm, elev)
            cen = p.astype(float) + sh
        if mixed:
            u = rng2.random()
            if u < 0.35:
                # wire along a lattice rectangle p, p+a, p+a+b, p+b
                i, j = [int(k) for k in rng2.permutation(3)[:2]]
                a, b = np.zeros(3), np.zeros(3)
                a[i] = float(rng2.integers(1, 3))
                b[j] = float(rng2.integers(1, 3))
                p0 = p.astype(float) + sh
                how = int(rng2.integers(3))
                if how == 0:        # two vertices
                    pts = [p0, p0 + a + b]
                elif how == 1:      # open path, four unique vertices
                    pts = [p0, p0 + a, p0 + a + b, p0 + b]
                else:               # closed loop: first vertex repeated
                    pts = [p0, p0 + a, p0 + a + b, p0 + b, p0]
                cls = emg3d.TxElectricWire
                coo = np.array(pts)
                cen = p0 + (a + b)/2.0
            elif u < 0.5:
                cls = emg3d.TxMagneticPoint
                coo = (float(p[0]) + sh[0], float(p[1]) + sh[1],
                       float(p[2]) + sh[2], float(rng2.integers(-9, 10)*10),
                       float(rng2.integers(-4, 5)*10))
                cen = p.astype(float) + sh
            if rng2.random() < 0.3:
                kw['strength'] = 2.5
        srcs.append(cls(coo, **kw))
        spos.append(cen)
        sexp.append({'cls': cls.__name__, 'coordinates': np.array(coo, float),
                     'strength': kw.get('strength', 1.0)})
    recs, rinfo, rexp = [], [], []
    for _ in range(nr):
        p = rng.integers(-3, 4, 3)
        if rng.random() < 0.4:          # axis-aligned: exact offsets
            q = np.zeros(3, dtype=p.dtype)
            k = int(rng.integers(3))
            q[k] = p[k]
            p = q
        azm, elev = float(rng.integers(-9, 10)*10), float(
            rng.integers(-4, 5)*10)
        rel = bool(rng.random() < 0.35)
        cls = emg3d.RxMagneticPoint if rng.random() < 0.3 else \
            emg3d.RxElectricPoint
        c3 = p.astype(float) if rel else p.astype(float) + sh
        coo = (float(c3[0]), float(c3[1]), float(c3[2]), azm, elev)
        recs.append(cls(coo, relative=rel))
        rinfo.append((c3, rel))
        rexp.append({'cls': cls.__name__, 'coordinates': np.array(coo, float),
                     'relative': rel})
    pool = FREQS if nfq <= len(FREQS) else FREQS_MANY
    freqs = [float(f) for f in rng.choice(pool, size=nfq, replace=False)]
    return srcs, recs, freqs, spos, rinfo, {'src': sexp, 'rec': rexp}


def check_electrode(obj, exp, centre, axis, name, role, after):
    """The object stored under a name is the one that was put there: class,
    coordinates (bit-identical), strength / relative flag, centre."""
    def bad(what, got, want):
        raise Violation(
            f"content:electrode:{axis}:{what}:{role}:after={after}",
            f"{axis[:-1]} {name!r}: {what} is {got!r}, the survey was created "
            f"with {want!r}")
    if type(obj).__name__ != exp['cls']:
        bad('class', type(obj).__name__, exp['cls'])
    got = np.asarray(obj.coordinates, dtype=float)
    if got.shape != exp['coordinates'].shape or not np.array_equal(
            got, exp['coordinates']):
        bad('coordinates', got.tolist(), exp['coordinates'].tolist())
    if 'strength' in exp and not obj.strength == exp['strength']:
        bad('strength', obj.strength, exp['strength'])
    if 'relative' in exp and bool(obj.relative) != exp['relative']:
        bad('relative', obj.relative, exp['relative'])
    if not np.array_equal(np.asarray(obj.center, dtype=float), centre):
        bad('center', np.asarray(obj.center).tolist(), centre.tolist())


class Model:
    """Python-side model of a survey."""

    def __init__(self):
        self.src, self.rec, self.freq = [], [], []
        self.fval, self.spos, self.rinfo = {}, {}, {}
        self.sexp, self.rexp = {}, {}     # name -> electrode as created
        self.data = {}
        self.nf = self.re = self.std = None
        self.scale = 1.0
        # was the assigned value an array with more than one element?
        self._arr = {'nf': False, 're': False}

    @property
    def shape(self):
        return (len(self.src), len(self.rec), len(self.freq))

    def copy(self):
        return copy.deepcopy(self)

    def offsets2(self):
        """Squared source-receiver offsets (ns, nr), exact."""
        out = np.zeros((len(self.src), len(self.rec)))
        for i, s in enumerate(self.src):
            sc = self.spos[s]
            for j, r in enumerate(self.rec):
                rc, rel = self.rinfo[r]
                ra = rc + sc if rel else rc
                out[i, j] = float(np.sum((ra - sc)**2))
        return out

    def current_std(self):
        return model_std(self.nf, self.re, self.std, self.data['observed'])

    def sub(self, si, ri, fi):
        m = Model()
        m.src = [self.src[i] for i in si]
        m.rec = [self.rec[i] for i in ri]
        m.freq = [self.freq[i] for i in fi]
        m.fval = {k: self.fval[k] for k in m.freq}
        m.spos = {k: self.spos[k] for k in m.src}
        m.rinfo = {k: self.rinfo[k] for k in m.rec}
        m.sexp = {k: self.sexp[k] for k in m.src}
        m.rexp = {k: self.rexp[k] for k in m.rec}
        ix = np.ix_(si, ri, fi)
        m.data = {k: v[ix].copy() for k, v in self.data.items()}
        for p in ('nf', 're', 'std'):
            v = getattr(self, p)
            setattr(m, p, None if v is None else v[ix].copy())
        m.scale = self.scale
        m._arr = dict(self._arr)
        return m


# -------------------------------------------------------------- comparisons
def check_survey(sv, m, after, role='current', data=True):
    """Compare an emg3d survey with the model.  Raises Violation.
    `after` is 'op' or 'op(qualifier)'; the qualifier only enters the
    signature of parameter changes (one bucket per root cause)."""
    shape = m.shape
    after_q, after = after, after.split('(')[0]
    # --- names and shape
    for axis, got, exp in (('sources', list(sv.sources), m.src),
                           ('receivers', list(sv.receivers), m.rec),
                           ('frequencies', list(sv.frequencies), m.freq)):
        if got != exp:
            raise Violation(f"content:names:{axis}:{role}:after={after}",
                            f"{axis} are {got}, expected {exp}")
    for k in m.freq:
        if float(sv.frequencies[k]) != m.fval[k]:
            raise Violation(f"content:frequency_value:{role}:after={after}",
                            f"{k}: {sv.frequencies[k]} vs {m.fval[k]}")
    if tuple(sv.shape) != shape:
        raise Violation(f"content:shape:{role}:after={after}",
                        f"shape {sv.shape}, expected {shape}")
    # --- the objects behind the names
    for k in m.src:
        check_electrode(sv.sources[k], m.sexp[k], m.spos[k], 'sources', k,
                        role, after)
    for k in m.rec:
        check_electrode(sv.receivers[k], m.rexp[k], m.rinfo[k][0],
                        'receivers', k, role, after)

    # --- stored parameters, bit-identical to the model
    for p, pname in PNAMES.items():
        exp = getattr(m, p)
        got = getattr(sv, pname)
        kind = _pk(m, p)
        sig = f"param_changed:{pname}:{kind}:{role}:after={after_q}"
        if exp is None:
            if got is not None:
                raise Violation(sig, f"{pname} is {got!r}, model says None")
            continue
        if got is None:
            raise Violation(sig, f"{pname} is None, model has a value")
        try:
            g = np.broadcast_to(np.asarray(got, float), shape)
        except ValueError:
            raise Violation(sig, f"{pname} has shape {np.shape(got)}, not "
                                 f"broadcastable to {shape}")
        if not np.array_equal(g, exp):
            ratio = g/exp
            raise Violation(
                sig, f"{pname} differs from the value that was assigned: "
                f"stored/assigned ratio in [{ratio.min():.6g}, "
                f"{ratio.max():.6g}]",
                {'stored': g, 'assigned': exp})
    has = 'standard_deviation' in sv.data
    if has != (m.std is not None):
        raise Violation(f"param_changed:standard_deviation:presence:{role}:"
                        f"after={after}",
                        f"explicit standard deviation present={has}, model "
                        f"says {m.std is not None}")
    if has and not np.array_equal(sv.data['standard_deviation'].data, m.std):
        raise Violation(f"param_changed:standard_deviation:array:{role}:"
                        f"after={after}",
                        "explicitly set standard deviation differs from the "
                        "assigned array")
    if not data:
        return

    # --- data sets, bit-identical
    for k, v in m.data.items():
        dr = 'observed' if k == 'observed' else 'other'
        if k not in sv.data:
            raise Violation(f"content:data_missing:{dr}:{role}:after={after}",
                            f"data set {k!r} is missing")
        if not _same(sv.data[k].data, v):
            raise Violation(f"content:data:{dr}:{role}:after={after}",
                            f"data set {k!r} differs from the model",
                            {'got': sv.data[k].data, 'expected': v})

    # --- standard deviation follows the formula
    got = sv.standard_deviation
    exp = m.current_std()
    terms = 'explicit' if m.std is not None else '+'.join(
        t for t, v in (('nf', m.nf), ('re', m.re)) if v is not None)
    fsig = f"std_formula:terms={terms or 'none'}"
    fdesc = f" [nf={_pk(m, 'nf')}, re={_pk(m, 're')}, after {after_q}]"
    if exp is None:
        if got is not None:
            raise Violation(fsig, "standard_deviation is not None although "
                                  "nothing is defined")
        return
    if got is None:
        raise Violation(fsig, "standard_deviation is None")
    g = np.asarray(getattr(got, 'data', got))
    if g.shape != shape:
        raise Violation(fsig, f"standard_deviation has shape {g.shape}")
    if np.iscomplexobj(g):
        raise Violation(fsig, "standard_deviation is complex")
    if not np.array_equal(np.isnan(g), np.isnan(exp)):
        raise Violation(fsig, "NaN pattern of standard_deviation differs "
                              "from that of the formula")
    ok = ~np.isnan(exp)
    if m.std is not None:
        good = np.array_equal(g[ok], exp[ok])
    else:
        good = np.allclose(g[ok], exp[ok], rtol=1e-13, atol=0)
    if not good:
        rel = np.max(np.abs(g[ok]-exp[ok])/exp[ok])
        raise Violation(fsig, f"standard_deviation differs from sqrt(nf^2+"
                              f"(re|d|)^2): max rel. {rel:.3e}" + fdesc,
                        {'got': g, 'expected': exp})


def _form_label(val, form):
    """Evidence label: the form that was really handed over."""
    if val is None:
        return 'none'
    if not isinstance(val, np.ndarray):
        return 'np64' if isinstance(val, np.floating) else 'float'
    return form if form in ('fortran', 'strided') or (
        form == 'bcast' and val.size > 1) else 'plain_array'


def _pk(m, p):
    """Kind label of a model parameter (none / scalar / array): 'array' iff
    the assigned value had more than one element."""
    v = getattr(m, p)
    if v is None:
        return 'none'
    return 'array' if m._arr[p] else 'scalar'


# ------------------------------------------------------------------ driver
class Driver:
    """Applies operations to a Survey and to the model; checks after each.
    Used by the state machine and by the Hypothesis-free replay."""

    def __init__(self, config, rec):
        self.cfg = config
        self.rec = rec
        self.sv = None
        self.m = None
        self.frozen = []
        self.tmp = None
        self.nstep = 0
        self.nontrivial = False
        self._create()

    # -- bookkeeping
    def close(self):
        if self.tmp is not None:
            shutil.rmtree(self.tmp, ignore_errors=True)
            self.tmp = None

    def _arr_active(self):
        m = self.m
        return (m.std is not None or _pk(m, 'nf') == 'array' or
                _pk(m, 're') == 'array')

    def _freeze(self, sv, m, origin, data):
        self.frozen.append({'sv': sv, 'm': m.copy(), 'origin': origin,
                            'data': data})
        self.frozen = self.frozen[-3:]

    def verify(self, after):
        check_survey(self.sv, self.m, after)
        for fr in self.frozen:
            check_survey(fr['sv'], fr['m'], after,
                         role=f"earlier[{fr['origin']}]", data=fr['data'])

    # -- creation
    def _create(self):
        import emg3d
        cfg = self.cfg
        shape = tuple(cfg['shape'])
        srcs, recs, freqs, spos, rinfo, eexp = build_geometry(
            cfg['seed'], shape, cfg.get('geo'))
        scale = cfg['scale']
        kw = {}
        m = Model()
        m.scale = scale
        forms = []
        for p, pname in PNAMES.items():
            c = cfg[p + '0']
            args = (p, c['kind'], c['seed'], shape, scale, c['one'],
                    c.get('form', 'plain'))
            val = make_param(*args)
            if c['kind'] != 'none' or c['seed'] % 2:
                kw[pname] = make_param(*args)      # fresh object, same layout
            setattr(m, p, full_of(val, shape))
            m._arr[p] = kind_of(val) == 'array'
            forms.append(f"init:form={_form_label(val, c.get('form', 'plain'))}")
        obs = make_data(cfg['seed'], 2, shape, scale, cfg['nan'],
                        zeros=cfg.get('zeros', False))
        ext = make_data(cfg['seed'], 3, shape, scale, cfg['nan']/2)
        d0 = cfg['data0']
        if d0 == 'none':
            data = None
            m.data['observed'] = np.full(shape, np.nan+1j*np.nan)
        elif d0 == 'array':
            data = obs.copy()
            m.data['observed'] = obs
        elif d0 == 'dict':
            data = {'observed': obs.copy(), 'extra': ext.copy()}
            m.data['observed'] = obs
            m.data['extra'] = ext
        else:  # dict without observed
            data = {'extra': ext.copy()}
            m.data['observed'] = np.full(shape, np.nan+1j*np.nan)
            m.data['extra'] = ext
        std0 = cfg.get('std0', 'none')
        if std0 == 'ctor':
            # documented for `data`: a dict "in which one could also store,
            # for instance, standard-deviations"
            m.std = make_param('std', 'full', cfg['seed'], shape, scale)
            if data is None:
                data = {}
            elif not isinstance(data, dict):
                data = {'observed': data}
            data['standard_deviation'] = m.std.copy()
        names = cfg.get('names', 'auto')
        if names == 'dict':
            # user keys; insertion order differs from the sorted order
            a_src = {'S' + TAGS[i]: v for i, v in enumerate(srcs)}
            a_rec = {'R' + TAGS[i]: v for i, v in enumerate(recs)}
            a_frq = {'F' + TAGS[i]: v for i, v in enumerate(freqs)}
            exp_names = (list(a_src), list(a_rec), list(a_frq))
        else:
            a_src, a_rec, a_frq = srcs, recs, freqs
            exp_names = None
        with warnings.catch_warnings():
            warnings.simplefilter('ignore')
            with size1_guard(kw.values()):
                sv = emg3d.Survey(a_src, a_rec, a_frq, data=data, **kw)
        m.src, m.rec, m.freq = (list(sv.sources), list(sv.receivers),
                                list(sv.frequencies))
        if exp_names is not None and exp_names != (m.src, m.rec, m.freq):
            raise Violation("content:names:user_keys_not_kept:init",
                            f"keys {exp_names} became "
                            f"{(m.src, m.rec, m.freq)}")
        m.fval = dict(zip(m.freq, freqs))
        m.spos = dict(zip(m.src, spos))
        m.rinfo = dict(zip(m.rec, rinfo))
        m.sexp = dict(zip(m.src, eexp['src']))
        m.rexp = dict(zip(m.rec, eexp['rec']))
        self.sv, self.m = sv, m
        if std0 not in ('none', 'ctor'):
            m.std = make_param('std', std0, cfg['seed'], shape, scale)
            sv.standard_deviation = m.std.copy()
        shp = '1x1x1' if shape == (1, 1, 1) else (
            'has1' if 1 in shape else 'general')
        geo = cfg.get('geo') or {}
        self.rec.cls(f"init:std={cfg.get('std0', 'none')}", f"shape={shp}",
                     f"init:nf={_pk(m, 'nf')}", f"init:re={_pk(m, 're')}",
                     f"init:data={d0}", f"scale={scale:g}",
                     f"init:names={names}",
                     f"init:shift={bool(geo.get('shift', 0))}",
                     f"init:zeros={bool(cfg.get('zeros', False))}",
                     f"init:auto_keys_padded={names == 'auto' and max(shape) >= 10}",
                     *sorted(set(forms)),
                     *sorted({'init:src=' + e['cls'] for e in eexp['src']}),
                     *(['init:src_strength=2.5'] if any(
                         e['strength'] != 1.0 for e in eexp['src']) else []))
        self.verify('init')

    # -- dispatch
    def apply(self, name, args):
        self.nstep += 1
        self.rec.cls(f"op={name}")
        with warnings.catch_warnings():
            warnings.simplefilter('ignore')
            getattr(self, 'op_' + name)(args)

    def finish(self, history):
        self.rec.cls(f"steps={min(self.nstep, 12)//3*3}+")
        if self.nontrivial:
            self.rec.nt([self.cfg, history])
        self.rec.note({'shape': self.cfg['shape'],
                       'ops': [h[0] for h in history]})

    # -- explicit assignments
    def _set_param(self, p, a):
        m = self.m
        args = (p, a['kind'], a['seed'], m.shape, m.scale, a['one'],
                a.get('form', 'plain'))
        val = make_param(*args)
        give = make_param(*args)               # fresh object, same layout
        if (a.get('as_list') and isinstance(give, np.ndarray)
                and a.get('form', 'plain') == 'plain'):
            give = give.tolist()
        with size1_guard([give]):
            setattr(self.sv, PNAMES[p], give)
        setattr(m, p, full_of(val, m.shape))
        m._arr[p] = kind_of(val) == 'array'
        self.rec.cls(f"set_{p}:{a['kind']}", "set:form=" + (
            'list' if isinstance(give, list) else
            _form_label(val, a.get('form', 'plain'))))
        self.verify(f"set_{PNAMES[p]}")

    def op_set_nf(self, a):
        self._set_param('nf', a)

    def op_set_re(self, a):
        self._set_param('re', a)

    def op_set_std(self, a):
        m = self.m
        val = make_param('std', a['kind'], a['seed'], m.shape, m.scale)
        self.sv.standard_deviation = None if val is None else val.copy()
        m.std = None if val is None else val
        self.rec.cls(f"set_std:{a['kind']}")
        self.verify("set_standard_deviation")

    def op_set_obs(self, a):
        m = self.m
        arr = make_data(a['seed'], 4, m.shape, m.scale, a['nan'],
                        zeros=a.get('zeros', False))
        if a['how'] == 'inplace':
            self.sv.data['observed'][...] = arr.copy()
        else:
            self.sv.data['observed'] = self.sv.data.observed.copy(
                data=arr.copy())
        m.data['observed'] = arr
        self.verify("set_observed")

    # -- add_noise
    def op_add_noise(self, a):
        m, sv = self.m, self.sv
        shape = m.shape
        obs = m.data['observed']
        kw = {}
        num = a.get('num', 'float')

        def conv(x):
            """The drawn numeric type of a scalar argument (same value)."""
            if num == 'np64':
                return np.float64(x)
            if num == 'int' and np.isfinite(x) and float(x).is_integer():
                return int(x)
            return float(x)
        ma = a['min_amp']
        if ma[0] in ('default', 'half_nf'):
            thr = None if m.nf is None else m.nf/2.0
            if ma[0] == 'half_nf':
                kw['min_amplitude'] = 'half_nf'
            malab = 'half_nf'
        elif ma[0] == 'none':
            thr = None
            kw['min_amplitude'] = None
            malab = 'none'
        else:
            fin = np.sort(np.abs(obs[np.isfinite(obs)]))
            if fin.size == 0:
                val = float(m.scale)
            else:
                k = ma[1] % fin.size
                if ma[2] == 'eq':
                    val = float(fin[k])
                elif ma[2] == 'mid':
                    val = float(np.sqrt(fin[k]*fin[min(k+1, fin.size-1)]))
                elif ma[2] == 'low':
                    val = float(fin[0]/2)
                else:
                    val = float(fin[-1]*2)
            thr = val
            kw['min_amplitude'] = conv(val)
            malab = 'float'
        off = np.sqrt(m.offsets2())   # exact d2 -> same float as emg3d's
        uoff = np.unique(off)

        def offset_value(spec):
            """None | ['abs', v] | ['eq', i] (exactly an occurring offset)
            | ['mid', i] (between two occurring offsets)."""
            if spec is None:
                return None, 'omitted'
            if spec[0] == 'inf':        # the documented default, explicitly
                return float('inf'), 'inf'
            if spec[0] == 'abs':
                return float(spec[1]), 'abs'
            # equality only with offsets that are exact in any arithmetic
            # (multiples of 0.5); the others get a value strictly between
            exact = uoff[(uoff*2 == np.round(uoff*2)) & (uoff > 0)]
            if spec[0] == 'eq' and exact.size:
                return float(exact[spec[1] % exact.size]), 'eq'
            i = spec[1] % uoff.size
            if i == uoff.size - 1:      # strictly above the largest offset
                return float(uoff[i]*1.25 + 0.25), 'mid'
            return float((uoff[i] + uoff[i+1])/2), 'mid'
        mino, minlab = offset_value(a['min_offset'])
        maxo, maxlab = offset_value(a['max_offset'])
        if mino is not None:
            kw['min_offset'] = conv(mino)
        if maxo is not None:
            kw['max_offset'] = conv(maxo)
        if a['add_to'] is not None:
            kw['add_to'] = a['add_to']
        if a['ntype'] is not None:
            kw['ntype'] = a['ntype']
        if a['mean'] is not None:
            kw['mean_noise'] = conv(a['mean'])
        tgt = a['add_to'] or 'observed'
        ntype = a['ntype'] or 'white_noise'
        mean = float(a['mean'] or 0.0)
        after = f"add_noise(min_amplitude={malab})"
        if self._arr_active():
            self.nontrivial = True

        # ---- expectation (from the model, before the call)
        existed = tgt in m.data
        old = m.data[tgt].copy() if existed else np.zeros(
            shape, dtype=complex)
        cut_amp = np.zeros(shape, bool)
        if thr is not None:
            cut_amp = np.abs(obs) < thr        # False where observed is NaN
        lo = 0.0 if mino is None else mino
        hi = np.inf if maxo is None else maxo
        cut_off = np.broadcast_to(((off < lo) | (off > hi))[:, :, None],
                                  shape)
        cut = cut_amp | cut_off
        obs_std = obs.copy()
        if tgt == 'observed':
            obs_std[cut] = np.nan + 1j*np.nan
        std = model_std(m.nf, m.re, m.std, obs_std)
        std_nan = np.zeros(shape, bool) if std is None else np.isnan(std)
        exp_nan = np.isnan(old) | cut | std_nan

        # ---- clones of the state before the call, for the seeded probes
        clones = []
        if (a.get('probe', False) and std is not None
                and not exp_nan.all()):
            import emg3d
            clones = [emg3d.Survey.from_dict(sv.to_dict(copy=True))
                      for _ in range(3)]

        # ---- the call
        with seeded_default_rng(a['seed']):
            sv.add_noise(**kw)

        # ---- 1. parameters untouched, all other data sets untouched
        if tgt not in sv.data:
            raise Violation(f"add_noise:target_missing:{after}",
                            f"data set {tgt!r} does not exist after the call")
        new = np.array(sv.data[tgt].data)
        m.data[tgt] = new.copy()   # realised noise is not predictable
        others = {k: v for k, v in m.data.items() if k != tgt}
        check_params_and_others(sv, m, others, after)
        for fr in self.frozen:
            check_survey(fr['sv'], fr['m'], after,
                         role=f"earlier[{fr['origin']}]", data=fr['data'])

        # ---- 2. NaN pattern of the target
        got_nan = np.isnan(new)
        if new.shape != shape:
            raise Violation(f"add_noise:shape:{after}", f"{new.shape}")
        if not np.array_equal(got_nan, exp_nan):
            miss = exp_nan & ~got_nan
            if miss.any():
                if (miss & cut_off).any():
                    why = 'offset_cut_missing'
                elif (miss & cut_amp).any():
                    why = f'amplitude_cut_missing[{malab}]'
                elif (miss & np.isnan(old)).any():
                    why = 'nan_filled'
                else:
                    why = 'finite_noise_where_std_nan'
            else:
                extra = got_nan & ~exp_nan
                o3 = np.broadcast_to(off[:, :, None], shape)
                off_eq = ((o3 == lo) | (o3 == hi))[extra]
                amp_eq = np.zeros(off_eq.shape, bool) if thr is None else \
                    (np.abs(obs) == thr)[extra]
                if (off_eq & ~amp_eq).any():
                    why = 'cut_at_offset_equal_to_limit'
                elif (amp_eq & ~off_eq).any():
                    why = 'cut_at_amplitude_equal_to_limit'
                elif (amp_eq & off_eq).any():
                    why = 'cut_at_value_equal_to_limit'
                else:
                    why = 'spurious_nan'
            raise Violation(
                f"add_noise:nan_pattern:{why}",
                f"NaN pattern of {tgt!r} after add_noise({kw}) differs from "
                f"the documented cuts: expected {int(exp_nan.sum())} NaN, got "
                f"{int(got_nan.sum())}",
                {'expected_nan': exp_nan, 'got_nan': got_nan,
                 'offsets': off, 'abs_observed': np.abs(obs)})

        # ---- 3. realisation-independent facts about the added noise
        ok = ~exp_nan
        delta = new[ok] - old[ok]
        if std is None:
            if not np.array_equal(new[ok], old[ok]):
                raise Violation("add_noise:noise_without_std",
                                "data changed although no standard deviation "
                                "is defined")
        else:
            s = std[ok]
            tol = 1e-11*(np.abs(old[ok]) + np.abs(new[ok]) +
                         s*(1 + 2*abs(mean)))
            msig = f"add_noise:noise_model:{ntype}:mean=" \
                   f"{'zero' if mean == 0 else 'nonzero'}"
            mdesc = f" [nf={_pk(m, 'nf')}, re={_pk(m, 're')}, explicit " \
                    f"std={m.std is not None}, add_noise({kw})]"
            if ntype == 'white_noise':
                dev = np.abs(np.abs(delta - s*(1+1j)*mean) - s)
                if np.any(dev > tol):
                    i = int(np.argmax(dev/tol))
                    raise Violation(
                        msig, "|d_new - d_old - std(1+i)mean| != std: "
                        f"{np.abs(delta - s*(1+1j)*mean)[i]:.6e} vs std "
                        f"{s[i]:.6e}" + mdesc,
                        {'std': std, 'old': old, 'new': new})
            elif ntype == 'gaussian_correlated':
                dev = np.abs(delta.real - delta.imag)
                if np.any(dev > tol):
                    raise Violation(msig, "real and imaginary part of the "
                                          "added noise differ" + mdesc)
            if not np.all(np.isfinite(delta)):
                raise Violation(msig, "non-finite noise")
            if clones:
                self._probe_noise(clones, a, kw, tgt, ntype, mean, conv, old,
                                  new, ok, std, std_nan, mdesc)
        self.rec.cls(
            f"add_noise:min_amp={ma[0] if ma[0] != 'abs' else 'float_'+ma[2]}",
            f"add_noise:nf={_pk(m, 'nf')}", f"add_noise:re={_pk(m, 're')}",
            f"add_noise:std_explicit={m.std is not None}",
            f"add_noise:ntype={ntype}", f"add_noise:mean={mean != 0}",
            "add_noise:add_to=" + ('observed' if tgt == 'observed' else
                                   'existing' if existed else 'new'),
            f"add_noise:cut_amp={_frac(cut_amp & ~np.isnan(obs))}",
            f"add_noise:cut_off={_frac(cut_off)}",
            f"add_noise:min_offset={minlab}", f"add_noise:max_offset={maxlab}",
            "add_noise:scalar_types=" + '+'.join(sorted(
                {type(v).__name__ for k, v in kw.items() if k in (
                    'min_offset', 'max_offset', 'mean_noise', 'min_amplitude')
                 and not isinstance(v, str) and v is not None}) or ['none']),
            "add_noise:noisy_entries=" + (
                'none[no_std]' if std is None else 'none[all_nan_before]'
                if np.isnan(old).all() else 'none[all_cut_or_std_nan]'
                if not ok.any() else 'some'))
        self.verify(after)

    def _probe_noise(self, clones, a, kw, tgt, ntype, mean, conv, old, new,
                     ok, std, std_nan, mdesc):
        """Scale and mean of the added noise for all noise types, from what
        random_noise documents: d_noise = std*((1+i)*mean + R), R depending
        only on the generator.  Clones of the survey get the same generator
        state (seeded_default_rng); (A) same arguments must reproduce the
        result, else nothing is concluded; (B) mean_noise + 1 shifts the
        result by std*(1+i); (C) the doubled standard deviation (assigned
        explicitly) doubles the noise."""
        A, B, C = clones
        with seeded_default_rng(a['seed']):
            A.add_noise(**kw)
        if not _same(np.array(A.data[tgt].data), new):
            self.rec.cls("add_noise:probe=not_reproducible")
            return
        s = std[ok]
        base = np.abs(old[ok]) + np.abs(new[ok]) + s*(2 + 2*abs(mean))
        # (B) mean
        kwb = dict(kw)
        kwb['mean_noise'] = conv(mean + 1.0)
        with seeded_default_rng(a['seed']):
            B.add_noise(**kwb)
        b = np.array(B.data[tgt].data)
        if not np.array_equal(np.isnan(b), np.isnan(new)):
            raise Violation(f"add_noise:mean_noise:{ntype}:nan_pattern",
                            "NaN pattern depends on mean_noise" + mdesc)
        dev = np.abs((b[ok] - new[ok]) - s*(1+1j))
        tol = 1e-11*(base + np.abs(b[ok]))
        if np.any(dev > tol):
            i = int(np.argmax(dev - tol))
            raise Violation(
                f"add_noise:mean_noise:{ntype}",
                "same generator state, mean_noise + 1: the data change by "
                f"{(b[ok] - new[ok])[i]:.6e} instead of std*(1+i) with std "
                f"{s[i]:.6e}" + mdesc, {'std': std, 'mean': new, 'mean+1': b})
        # (C) scale; only if the standard deviation handed to the noise
        # generator has the same (empty) NaN pattern in both calls
        S = C.standard_deviation
        S = None if S is None else np.array(S.data)
        if (S is None or std_nan.any() or not np.all(np.isfinite(S)) or
                not np.all(S > 0)):
            self.rec.cls("add_noise:probe=mean", f"probe:{ntype}=mean")
            return
        C.standard_deviation = 2.0*S
        with seeded_default_rng(a['seed']):
            C.add_noise(**kw)
        c = np.array(C.data[tgt].data)
        if not np.array_equal(np.isnan(c), np.isnan(new)):
            raise Violation(f"add_noise:noise_scale:{ntype}:nan_pattern",
                            "NaN pattern changes if the standard deviation "
                            "is doubled" + mdesc)
        dev = np.abs((c[ok] - old[ok]) - 2.0*(new[ok] - old[ok]))
        tol = 1e-11*(2*base + np.abs(c[ok]))
        if np.any(dev > tol):
            i = int(np.argmax(dev - tol))
            raise Violation(
                f"add_noise:noise_scale:{ntype}",
                "same generator state, standard deviation doubled: noise "
                f"{(c[ok] - old[ok])[i]:.6e} instead of twice "
                f"{(new[ok] - old[ok])[i]:.6e}" + mdesc,
                {'std': std, 'old': old, 'new': new, 'doubled': c})
        self.rec.cls("add_noise:probe=mean+scale", f"probe:{ntype}=mean+scale")

    # -- select
    def op_select(self, a):
        m, sv = self.m, self.sv
        kw, idx = {}, []
        reordered = False
        for axis, names, key in (('sources', m.src, 'src'),
                                 ('receivers', m.rec, 'rec'),
                                 ('frequencies', m.freq, 'freq')):
            spec = a[key]
            n = len(names)
            if spec is None:
                idx.append(list(range(n)))
                continue
            mask, oseed, as_str = spec
            ii = [i for i in range(n) if (mask >> i) & 1]
            if not ii:
                ii = [mask % n]
            if oseed is not None and len(ii) > 1:
                ii = [int(i) for i in
                      gen.rng_of(oseed, 5).permutation(np.array(ii))]
                if ii == sorted(ii):
                    ii = ii[1:] + ii[:1]
                reordered = True
            arg = [names[i] for i in ii]
            if as_str and len(arg) == 1:
                arg = arg[0]
            kw[axis] = arg
            idx.append(ii)
        rem = a['remove_empty']
        if rem is not None:
            kw['remove_empty'] = rem
        rem_eff = True if rem is None else rem
        if self._arr_active():
            self.nontrivial = True

        # expectation: the chosen sub-cube, minus empty slabs if requested
        m1 = m.sub(*idx)
        sub = m1.data['observed']
        removed = False
        if rem_eff and np.isfinite(sub).any():
            fin = np.isfinite(sub)
            ks = [i for i in range(sub.shape[0]) if fin[i, :, :].any()]
            kr = [i for i in range(sub.shape[1]) if fin[:, i, :].any()]
            kf = [i for i in range(sub.shape[2]) if fin[:, :, i].any()]
            removed = (len(ks), len(kr), len(kf)) != sub.shape
            m1 = m1.sub(ks, kr, kf)

        new = sv.select(**kw)
        after = "select"
        self._freeze(sv, m, 'select', data=False)
        self.sv, self.m = new, m1
        self.rec.cls(f"select:reordered={reordered}",
                     f"select:removed_empty={removed}",
                     f"select:proper_subset={m1.shape != m.shape}",
                     f"select:result_1x1x1={m1.shape == (1, 1, 1)}")
        self.verify(after)

    # -- copies
    def _fork(self, new, origin, keep, independent):
        """`new` must equal the model; continue with new or old."""
        if self._arr_active():
            self.nontrivial = True
        check_survey(new, self.m, origin, role='result')
        if keep == 'new':
            old = self.sv
            self.sv = new
            if independent:
                self._freeze(old, self.m, origin + ':original', data=True)
        elif independent:
            self._freeze(new, self.m, origin + ':result', data=True)
        self.verify(origin)

    def op_copy(self, a):
        how = a.get('how', 'copy')
        if how == 'deepcopy':       # what users and multiprocessing do
            new = copy.deepcopy(self.sv)
        elif how == 'pickle':
            import pickle
            new = pickle.loads(pickle.dumps(self.sv))
        else:
            new = self.sv.copy()
        self.rec.cls(f"copy:how={how}")
        self._fork(new, 'copy' if how == 'copy' else how, a['keep'], True)

    def op_dict(self, a):
        import emg3d
        if a['copy'] is None:
            d = self.sv.to_dict()
        else:
            d = self.sv.to_dict(copy=a['copy'])
        new = emg3d.Survey.from_dict(d)
        self.rec.cls(f"dict:copy={bool(a['copy'])}")
        self._fork(new, f"to_dict(copy={bool(a['copy'])})", a['keep'],
                   bool(a['copy']))

    def op_file(self, a):
        import emg3d
        if self.tmp is None:
            self.tmp = tempfile.mkdtemp(prefix='c13_')
        fn = os.path.join(self.tmp, f"s{self.nstep}.{a['ext']}")
        self.sv.to_file(fn, verb=0)
        new = emg3d.Survey.from_file(fn, verb=0)
        os.remove(fn)
        self.rec.cls(f"file:{a['ext']}")
        self._fork(new, f"to_file({a['ext']})", a['keep'], True)

    # -- misfit of the current survey
    def op_misfit(self, a):
        import emg3d
        m = self.m
        if self._arr_active():
            self.nontrivial = True
        s2 = emg3d.Survey.from_dict(self.sv.to_dict(copy=True))
        sim = emg3d.Simulation(s2, sim_model(), gridding='same',
                               max_workers=1, tqdm_opts=False)
        syn = make_data(a['seed'], 6, m.shape, m.scale, 0.0)
        sim.data['synthetic'][...] = syn
        sim._computed = True      # data assigned, nothing to solve
        std = m.current_std()
        if std is None:
            try:
                val = sim.misfit
            except ValueError:
                self.rec.cls("misfit:no_std_ValueError")
                return
            raise Violation("misfit:no_std_no_error",
                            f"misfit={val!r} without any standard deviation")
        if np.any(std == 0):
            # |d_obs| = 0 with a relative error only: the weight is not
            # defined; nothing is demanded
            self.rec.cls("misfit:std_zero_skipped")
            return
        got = float(sim.misfit)
        ref, nfin = ref_misfit(syn, m.data['observed'], std)
        self.rec.cls(f"misfit:finite={'0' if nfin == 0 else ('1' if nfin == 1 else 'many')}")
        check_weights(sim, syn, m.data['observed'], std)
        if abs(got - ref) > 1e-12*abs(ref):
            raise Violation(
                f"misfit:formula:std={'explicit' if m.std is not None else 'computed'}",
                f"misfit {got!r} vs checker's 0.5*sum|r|^2/std^2 = {ref!r} "
                f"({nfin} finite observations; nf={_pk(m, 'nf')}, "
                f"re={_pk(m, 're')})")
        check_params_and_others(s2, m, m.data, 'misfit',
                                role='simulated_copy')
        self.verify('misfit')


def check_params_and_others(sv, m, datasets, after, role='current'):
    """Names, stored parameters and the given data sets are as in the model
    (no standard-deviation formula: used while the model's copy of the data
    set that received noise is being synchronised)."""
    check_survey(sv, m, after, role=role, data=False)
    for k, v in datasets.items():
        dr = 'observed' if k == 'observed' else 'other'
        if k not in sv.data or not _same(sv.data[k].data, v):
            raise Violation(
                f"content:data:{dr}:{role}:after={after.split('(')[0]}",
                f"data set {k!r} was changed by an operation that should "
                "not touch it")


def check_weights(sim, syn, obs, std, tag=''):
    """After `misfit`: data.residual = d_syn - d_obs (one subtraction, hence
    bit-identical) and data.weights follow the standard deviation.  The
    misfit docstring defines W = 1/std, the code (and the jtvec docstring,
    gradient = J^T(residual*weights)) uses 1/std^2: either is accepted, so
    that only stale or otherwise wrong weights are flagged."""
    if 'residual' not in sim.data or 'weights' not in sim.data:
        return      # where they are kept is not part of the property
    r = np.array(sim.data['residual'].data)
    if not _same(r, syn - obs):
        raise Violation(f"misfit:residual{tag}",
                        "data.residual is not d_syn - d_obs",
                        {'residual': r, 'syn': syn, 'obs': obs})
    w = np.array(sim.data['weights'].data)
    good = False
    if w.shape == std.shape and np.array_equal(np.isnan(w), np.isnan(std)):
        fin = ~np.isnan(std)
        good = (np.allclose(w[fin], std[fin]**-2.0, rtol=1e-13, atol=0) or
                np.allclose(w[fin], 1.0/std[fin], rtol=1e-13, atol=0))
    if not good:
        raise Violation(f"misfit:weights{tag}",
                        "data.weights are neither 1/std^2 nor 1/std of the "
                        "current standard deviation",
                        {'weights': w, 'std': std})


def ref_misfit(syn, obs, std):
    fin = np.isfinite(obs) & np.isfinite(syn) & np.isfinite(std)
    r = syn[fin] - obs[fin]
    return float(0.5*np.sum((r.real**2 + r.imag**2)/std[fin]**2)), int(
        fin.sum())


def _frac(mask):
    if not mask.any():
        return 'none'
    return 'all' if mask.all() else 'some'


_SIM = {}


def sim_model():
    """Tiny model (8^3 cells of 2 m, [-8, 8]^3) shared by all simulations."""
    import emg3d
    if 'model' not in _SIM:
        h = np.ones(8)*2.0
        grid = emg3d.TensorMesh([h, h, h], origin=(-8, -8, -8))
        _SIM['model'] = emg3d.Model(grid, 1.0, mapping='Conductivity')
    return _SIM['model']


# ------------------------------------------------------------- strategies
SMALL = st.integers(0, 9999)
ONE = st.sampled_from([False]*5 + [True])
FORM = st.sampled_from(['plain']*4 + FORMS[1:])
PARAM = st.fixed_dictionaries({'kind': st.sampled_from(KINDS), 'seed': SMALL,
                               'one': ONE, 'form': FORM})
PARAM_SET = st.fixed_dictionaries({
    'kind': st.sampled_from(KINDS), 'seed': SMALL, 'one': ONE,
    'as_list': st.booleans(), 'form': FORM})
STD_SET = st.fixed_dictionaries({
    'kind': st.sampled_from(['none', 'full', 'full']), 'seed': SMALL})
OBS_SET = st.fixed_dictionaries({
    'seed': SMALL, 'nan': st.sampled_from([0.0, 0.2, 0.5]),
    'how': st.sampled_from(['inplace', 'replace']),
    'zeros': st.sampled_from([False, False, False, True])})
ADD_NOISE = st.fixed_dictionaries({
    'min_amp': st.one_of(
        st.just(['default']), st.just(['half_nf']), st.just(['none']),
        st.tuples(st.just('abs'), st.integers(0, 40),
                  st.sampled_from(['eq', 'mid', 'low', 'high'])).map(list)),
    'min_offset': st.one_of(
        st.none(), st.none(), st.integers(0, 6).map(lambda k: ['abs', k/2]),
        st.tuples(st.sampled_from(['eq', 'mid']), st.integers(0, 11)
                  ).map(list)),
    'max_offset': st.one_of(
        st.none(), st.none(), st.none(), st.just(['inf']),
        st.integers(4, 24).map(lambda k: ['abs', k/2]),
        st.tuples(st.sampled_from(['eq', 'mid']), st.integers(0, 11)
                  ).map(list)),
    'add_to': st.sampled_from([None, 'observed', 'extra', 'noise']),
    'ntype': st.sampled_from([None, 'white_noise', 'white_noise',
                              'gaussian_correlated',
                              'gaussian_uncorrelated']),
    'mean': st.sampled_from([None, None, 0.0, 0.5, -2.0]),
    'seed': SMALL,
    'num': st.sampled_from(['float', 'float', 'np64', 'int']),
    'probe': st.sampled_from([True, True, True, False])})
AXIS = st.one_of(st.none(), st.none(), st.tuples(
    st.sampled_from([7, 15, 3, 6, 5, 11, 13, 14, 1, 2, 4, 8, 0, 9, 10, 12]),
    st.sampled_from([0, 1, None, 2, 3]),
    st.booleans()).map(list))
SELECT = st.fixed_dictionaries({
    'src': AXIS, 'rec': AXIS, 'freq': AXIS,
    'remove_empty': st.sampled_from([None, True, False])})
KEEP = st.sampled_from(['new', 'old'])
SHAPE = st.one_of(
    st.just([1, 1, 1]),
    # >= 10 items: automatic keys are zero-padded ('f-01')
    st.sampled_from([[1, 1, 11], [1, 10, 2], [10, 1, 1], [2, 11, 1],
                     [2, 2, 10]]),
    st.tuples(st.sampled_from([2, 3, 1, 2, 3]),
              st.sampled_from([2, 3, 4, 1, 2, 3]),
              st.sampled_from([2, 3, 1, 2])).map(list),
    st.tuples(st.sampled_from([2, 3, 1, 2, 3]),
              st.sampled_from([2, 3, 4, 1, 2, 3]),
              st.sampled_from([2, 3, 1, 2])).map(list),
    st.tuples(st.sampled_from([2, 3, 1, 2, 3]),
              st.sampled_from([2, 3, 4, 1, 2, 3]),
              st.sampled_from([2, 3, 1, 2])).map(list),
    st.tuples(st.sampled_from([2, 3, 1, 2, 3]),
              st.sampled_from([2, 3, 4, 1, 2, 3]),
              st.sampled_from([2, 3, 1, 2])).map(list),
    st.tuples(st.sampled_from([2, 3, 1, 2, 3]),
              st.sampled_from([2, 3, 4, 1, 2, 3]),
              st.sampled_from([2, 3, 1, 2])).map(list))
CONFIG = st.fixed_dictionaries({
    'shape': SHAPE,
    'seed': SMALL,
    'scale': st.sampled_from([1.0, 1e-12]),
    'data0': st.sampled_from(['array', 'array', 'dict', 'dict', 'array',
                              'dict', 'none', 'dict_noobs']),
    'nan': st.sampled_from([0.2, 0.0, 0.4]),
    'nf0': PARAM, 're0': PARAM,
    'std0': st.sampled_from(['none', 'none', 'none', 'none', 'full', 'ctor']),
    'geo': st.fixed_dictionaries({
        'src': st.sampled_from(['classic', 'mixed', 'mixed']),
        'shift': st.sampled_from([0, 0, 1, 2])}),
    'names': st.sampled_from(['auto', 'auto', 'dict']),
    'zeros': st.sampled_from([False, False, False, True])})


class SurveyMachine(RuleBasedStateMachine):
    ctx = None
    sub = 'history'
    skip = set()

    def __init__(self):
        super().__init__()
        self.history = []
        self.rec = Rec()
        self.dead = False
        self.config = None
        self.drv = None

    def _do(self, name, args):
        if self.dead or self.drv is None:
            return
        self.history.append([name, args])
        self.ctx.machine_step(self, lambda: self.drv.apply(name, args))

    @initialize(cfg=CONFIG)
    def init(self, cfg):
        self.config = cfg

        def make():
            self.drv = Driver(cfg, self.rec)
        self.ctx.machine_step(self, make)

    @rule(a=PARAM_SET)
    def set_nf(self, a):
        self._do('set_nf', a)

    @rule(a=PARAM_SET)
    def set_re(self, a):
        self._do('set_re', a)

    @rule(a=STD_SET)
    def set_std(self, a):
        self._do('set_std', a)

    @rule(a=OBS_SET)
    def set_obs(self, a):
        self._do('set_obs', a)

    @rule(a=ADD_NOISE)
    def add_noise(self, a):
        self._do('add_noise', a)

    @rule(a=ADD_NOISE)
    def add_noise_again(self, a):
        self._do('add_noise', a)

    @rule(a=SELECT)
    def select(self, a):
        self._do('select', a)

    @rule(a=st.fixed_dictionaries({
        'keep': KEEP,
        'how': st.sampled_from(['copy', 'copy', 'deepcopy', 'pickle'])}))
    def r_copy(self, a):
        self._do('copy', a)

    @rule(a=st.fixed_dictionaries({
        'copy': st.sampled_from([None, False, True, True]), 'keep': KEEP}))
    def r_dict(self, a):
        self._do('dict', a)

    @rule(a=st.fixed_dictionaries({
        'ext': st.sampled_from(['h5', 'npz', 'json']), 'keep': KEEP}))
    def r_file(self, a):
        self._do('file', a)

    @rule(a=st.fixed_dictionaries({'seed': SMALL}))
    def misfit(self, a):
        self._do('misfit', a)

    def teardown(self):
        if self.drv is not None:
            self.drv.finish(self.history)
            self.drv.close()
        self.ctx.machine_done(self)


def case_history(spec, rec):
    """Replay of a recorded history, without Hypothesis."""
    drv = None
    try:
        drv = Driver(spec['config'], rec)
        for name, args in spec['history']:
            drv.apply(name, args)
        drv.finish(spec['history'])
    finally:
        if drv is not None:
            drv.close()


# ---------------------------------------------------------- misfit sub-check
MISFIT = st.fixed_dictionaries({
    'shape': SHAPE,
    'seed': SMALL,
    'scale': st.sampled_from([1.0, 1e-12]),
    'nan': st.sampled_from([0.0, 0.0, 0.2, 0.2, 0.5, 1.0]),
    'nf': PARAM, 're': PARAM,
    'std': st.sampled_from(['none', 'none', 'none', 'full']),
    'axes': st.lists(st.sampled_from(['src', 'rec', 'freq']), min_size=1,
                     max_size=3, unique=True).map(sorted),
    'pseed': st.integers(0, 99),
    'via': st.sampled_from(['ctor', 'ctor', 'setter']),
    'solve': st.sampled_from([False]*18 + [True]*2),
    'reuse': st.sampled_from(['none', 'none', 'none', 'clean', 'clean',
                              'copy_computed', 'copy_results', 'copy_all',
                              'copy_plain']),
    # solve cases only: the production path into add_noise
    'cobs': st.fixed_dictionaries({
        'add_noise': st.sampled_from([None, None, True, False]),
        'min_offset': st.sampled_from([None, 2.0, 3.5, 3]),
        'max_offset': st.sampled_from([None, None, 5.0, 6.5]),
        'ntype': st.sampled_from([None, 'white_noise',
                                  'gaussian_correlated']),
        'mean': st.sampled_from([None, 0.5, -2.0]),
        'min_amp': st.sampled_from(['default', 'none']),
        'seed': SMALL}),
})


def _perm(n, seed, salt):
    p = [int(i) for i in gen.rng_of(seed, salt).permutation(n)]
    if n > 1 and p == sorted(p):
        p = p[1:] + p[:1]
    return p


def _take(arr, ps, pr, pf):
    """Permute a broadcastable (or full) 3-D array along its non-unit axes."""
    if arr is None or not isinstance(arr, np.ndarray):
        return arr
    out = arr
    for ax, p in enumerate((ps, pr, pf)):
        if out.shape[ax] > 1:
            out = np.take(out, p, axis=ax)
    return out.copy()


def case_misfit(spec, rec):
    import emg3d
    shape = tuple(spec['shape'])
    scale = spec['scale']
    srcs, recs, freqs, spos, rinfo, _ = build_geometry(spec['seed'], shape)
    nan = spec['nan']
    if nan >= 1.0:
        obs = np.full(shape, np.nan+1j*np.nan)
    else:
        obs = make_data(spec['seed'], 2, shape, scale, nan)
    syn = make_data(spec['seed'], 6, shape, scale, 0.0)
    nf = make_param('nf', spec['nf']['kind'], spec['nf']['seed'], shape,
                    scale)
    re = make_param('re', spec['re']['kind'], spec['re']['seed'], shape,
                    scale)
    sd = make_param('std', spec['std'], spec['seed'], shape, scale)
    # assignment of single-element arrays is the business of 'history'
    if isinstance(nf, np.ndarray) and nf.size == 1:
        nf = float(nf.item())
    if isinstance(re, np.ndarray) and re.size == 1:
        re = float(re.item())
    # (no solves for the shapes with ten or more sources / frequencies)
    solve = spec['solve'] and max(shape) < 10
    sopts = dict(plain=True, maxit=1, verb=-1) if solve else {}

    def simulate(srcd, recd, frqd, obs, nf, re, sd, syn):
        cp = (lambda v: v.copy() if isinstance(v, np.ndarray) else v)
        with warnings.catch_warnings():
            warnings.simplefilter('ignore')
            if spec['via'] == 'ctor':
                sv = emg3d.Survey(srcd, recd, frqd, data=obs.copy(),
                                  noise_floor=cp(nf), relative_error=cp(re))
            else:
                sv = emg3d.Survey(srcd, recd, frqd)
                sv.noise_floor = cp(nf)
                sv.data['observed'][...] = obs.copy()
                sv.relative_error = cp(re)
            if sd is not None:
                sv.standard_deviation = sd.copy()
            sim = emg3d.Simulation(sv, sim_model(), gridding='same',
                                   max_workers=1, tqdm_opts=False,
                                   receiver_interpolation='linear',
                                   solver_opts=sopts, verb=-1)
            if not solve:
                sim.data['synthetic'][...] = syn.copy()
                sim._computed = True
            return sv, sim

    sv, sim = simulate(srcs, recs, freqs, obs, nf, re, sd, syn)
    names = (list(sv.sources), list(sv.receivers), list(sv.frequencies))
    std = model_std(full_of(nf, shape), full_of(re, shape), sd, obs)
    lab = f"nf={kind_of(nf)}:re={kind_of(re)}:explicit={sd is not None}"
    rec.cls(f"nf={kind_of(nf)}", f"re={kind_of(re)}",
            f"explicit={sd is not None}", f"solve={solve}",
            f"axes={'+'.join(spec['axes'])}", f"via={spec['via']}",
            f"shape={'1x1x1' if shape == (1, 1, 1) else 'other'}")
    if std is None:
        try:
            with warnings.catch_warnings():
                warnings.simplefilter('ignore')
                val = sim.misfit
        except ValueError:
            rec.cls("no_std_ValueError")
            return
        raise Violation("misfit:no_std_no_error",
                        f"misfit={val!r} without any standard deviation")
    with warnings.catch_warnings():
        warnings.simplefilter('ignore')
        got = float(sim.misfit)
    syn_a = np.array(sim.data.synthetic.data)
    ref, nfin = ref_misfit(syn_a, obs, std)
    rec.cls(f"finite={'0' if nfin == 0 else ('1' if nfin == 1 else 'many')}")
    if not abs(got - ref) <= 1e-12*abs(ref):
        raise Violation(f"misfit:formula:std="
                        f"{'explicit' if sd is not None else 'computed'}",
                        f"misfit {got!r} vs 0.5*sum_finite |d_syn-d_obs|^2/"
                        f"std^2 = {ref!r} ({nfin} finite observations; {lab}"
                        f", solve={solve})",
                        {'obs': obs, 'syn': syn_a, 'std': std})
    # parameters of the survey are not altered by computing the misfit
    for pname, val in (('noise_floor', nf), ('relative_error', re)):
        g = getattr(sv, pname)
        if (val is None) != (g is None) or (val is not None and not
                                            np.array_equal(
                np.broadcast_to(np.asarray(g, float), shape),
                full_of(val, shape))):
            raise Violation(f"param_changed:{pname}:{kind_of(val)}:current:"
                            f"after=misfit", f"{pname} changed by misfit")

    check_weights(sim, syn_a, obs, std)
    if solve and spec.get('cobs') is not None:
        _, sim3 = simulate(srcs, recs, freqs, obs, nf, re, sd, syn)
        with warnings.catch_warnings():
            warnings.simplefilter('ignore')
            _compute_observed(spec['cobs'], sim3, shape, spos, rinfo, nf, re,
                              sd, rec)
    reuse = spec.get('reuse', 'none')
    rec.cls(f"reuse={reuse}")
    if reuse != 'none':
        with warnings.catch_warnings():
            warnings.simplefilter('ignore')
            _misfit_reuse(reuse, sim, sv, shape, obs, syn, syn_a, nf, re, sd,
                          got, solve, lab)

    # ---- permutation of sources / receivers / frequencies
    ps = _perm(shape[0], spec['pseed'], 31) if 'src' in spec['axes'] \
        else list(range(shape[0]))
    pr = _perm(shape[1], spec['pseed'], 32) if 'rec' in spec['axes'] \
        else list(range(shape[1]))
    pf = _perm(shape[2], spec['pseed'], 33) if 'freq' in spec['axes'] \
        else list(range(shape[2]))
    srcd = {names[0][i]: srcs[i] for i in ps}
    recd = {names[1][i]: recs[i] for i in pr}
    frqd = {names[2][i]: freqs[i] for i in pf}
    ix = np.ix_(ps, pr, pf)
    sv2, sim2 = simulate(srcd, recd, frqd, obs[ix], _take(nf, ps, pr, pf),
                         _take(re, ps, pr, pf),
                         None if sd is None else sd[ix], syn[ix])
    with warnings.catch_warnings():
        warnings.simplefilter('ignore')
        got2 = float(sim2.misfit)
    moved = [a for a, p in zip(('src', 'rec', 'freq'), (ps, pr, pf))
             if p != sorted(p)]
    rtol = 1e-9 if solve else 1e-12
    if not abs(got2 - got) <= rtol*abs(got):
        raise Violation(f"misfit:permutation:{'+'.join(moved)}",
                        f"misfit {got!r} becomes {got2!r} after reordering "
                        f"{moved} (src {ps}, rec {pr}, freq {pf}; {lab})")
    if nfin >= 2 and 'array' in (kind_of(nf), kind_of(re)) and moved:
        rec.nt(spec)
    rec.note({'shape': list(shape), 'finite': nfin, 'misfit': got,
              'moved': moved})


def _compute_observed(c, sim, shape, spos, rinfo, nf, re, sd, rec):
    """Simulation.compute(observed=True, **kwargs): "stores the current
    synthetic responses also as observed responses"; add_noise=False: no
    noise; else the remaining kwargs are forwarded to Survey.add_noise, whose
    documented cuts and noise model must hold with d_old = synthetic."""
    kw = {}
    for k_spec, k in (('min_offset', 'min_offset'),
                      ('max_offset', 'max_offset'), ('ntype', 'ntype'),
                      ('mean', 'mean_noise'), ('add_noise', 'add_noise')):
        if c[k_spec] is not None:
            kw[k] = c[k_spec]
    if c['min_amp'] == 'none':
        kw['min_amplitude'] = None
    with seeded_default_rng(c['seed']):
        sim.compute(observed=True, **kw)
    sv = sim.survey
    S = np.array(sim.data.synthetic.data)
    new = np.array(sv.data.observed.data)
    noise = kw.get('add_noise', True)
    rec.cls(f"compute_observed:add_noise={noise}")
    # (receivers next to the boundary of the tiny grid give NaN responses)
    nff, ref = full_of(nf, shape), full_of(re, shape)
    for pname, val in (('noise_floor', nff), ('relative_error', ref)):
        g = getattr(sv, pname)
        if (val is None) != (g is None) or (val is not None and not
                                            np.array_equal(np.broadcast_to(
                np.asarray(g, float), shape), val)):
            raise Violation(f"param_changed:{pname}:{kind_of(val)}:current:"
                            "after=compute(observed=True)",
                            f"{pname} changed by compute(observed=True)")
    if not noise:
        if not _same(new, S):
            raise Violation("compute_observed:add_noise=False:not_a_copy",
                            "observed differs from synthetic although "
                            "add_noise=False")
        return
    off = np.zeros(shape[:2])
    for i, sc in enumerate(spos):
        for j, (rc, rel) in enumerate(rinfo):
            ra = rc + sc if rel else rc
            off[i, j] = np.sqrt(float(np.sum((ra - sc)**2)))
    lo = kw.get('min_offset', 0.0)
    hi = kw.get('max_offset', np.inf)
    cut = np.broadcast_to(((off < lo) | (off > hi))[:, :, None], shape).copy()
    if c['min_amp'] != 'none' and nff is not None:
        cut |= np.abs(S) < nff/2.0
    obs_c = S.copy()
    obs_c[cut] = np.nan + 1j*np.nan
    std = model_std(nff, ref, sd, obs_c)
    exp_nan = np.isnan(S) | cut | np.isnan(std)
    rec.cls(f"compute_observed:cut={_frac(cut)}",
            f"compute_observed:noisy={_frac(~exp_nan)}")
    if not np.array_equal(np.isnan(new), exp_nan):
        raise Violation(
            "compute_observed:nan_pattern",
            f"NaN pattern of observed after compute(observed=True, {kw}) "
            f"differs from the documented cuts: expected {int(exp_nan.sum())}"
            f" NaN, got {int(np.isnan(new).sum())}",
            {'expected_nan': exp_nan, 'got_nan': np.isnan(new),
             'offsets': off, 'abs_synthetic': np.abs(S)})
    ok = ~exp_nan
    mean = float(kw.get('mean_noise', 0.0))
    ntype = kw.get('ntype', 'white_noise')
    delta = new[ok] - S[ok]
    sg = std[ok]
    tol = 1e-11*(np.abs(S[ok]) + np.abs(new[ok]) + sg*(1 + 2*abs(mean)))
    if ntype == 'white_noise':
        dev = np.abs(np.abs(delta - sg*(1+1j)*mean) - sg)
    else:
        dev = np.abs(delta.real - delta.imag)
    if np.any(dev > tol) or not np.all(np.isfinite(delta)):
        raise Violation(
            f"compute_observed:noise_model:{ntype}",
            f"observed - synthetic after compute(observed=True, {kw}) does "
            "not follow std*((1+i)*mean + R)",
            {'std': std, 'synthetic': S, 'observed': new})


def _misfit_reuse(reuse, sim, sv, shape, obs, syn, syn_a, nf, re, sd, got,
                  solve, lab):
    """The Simulation is used a second time.

    'clean': clean('computed') ("removes all computed properties"), the noise
    parameters of the survey are re-assigned (x3), synthetic data are
    re-assigned (or re-computed): the misfit follows the *new* standard
    deviation.  'copy_<what>': Simulation.copy(what): the copy's survey has
    bit-identical noise parameters and the copy's misfit is the same."""
    rtol = 1e-9 if solve else 1e-12
    if reuse == 'clean':
        sim.clean('computed')
        if sd is not None:
            sd2, nf2, re2 = 3.0*sd, nf, re
            sim.survey.standard_deviation = sd2.copy()
        elif nf is not None:
            sd2, nf2, re2 = None, 3.0*nf, re
            sim.survey.noise_floor = nf2.copy() if isinstance(
                nf2, np.ndarray) else nf2
        else:
            sd2, nf2, re2 = None, nf, 3.0*re
            sim.survey.relative_error = re2.copy() if isinstance(
                re2, np.ndarray) else re2
        syn2 = syn_a
        if not solve:
            syn2 = -1.5*syn
            sim.data['synthetic'][...] = syn2.copy()
            sim._computed = True
        got2 = float(sim.misfit)
        syn2 = np.array(sim.data.synthetic.data)
        std2 = model_std(full_of(nf2, shape), full_of(re2, shape), sd2, obs)
        ref2, nfin = ref_misfit(syn2, obs, std2)
        if not abs(got2 - ref2) <= rtol*abs(ref2):
            raise Violation(
                "misfit:after_clean_and_reassignment",
                f"misfit {got2!r} after clean('computed') and assignment of "
                f"a new {'standard_deviation' if sd is not None else 'noise_floor' if nf is not None else 'relative_error'}"
                f"; with the new standard deviation it is {ref2!r} "
                f"(before: {got!r}; {lab}, solve={solve})")
        check_weights(sim, syn2, obs, std2, tag=':after_clean')
        return
    what = reuse.split('_', 1)[1]
    sim2 = sim.copy(what)
    s2 = sim2.survey
    for pname, val in (('noise_floor', nf), ('relative_error', re)):
        g = getattr(s2, pname)
        if (val is None) != (g is None) or (val is not None and not
                                            np.array_equal(
                np.broadcast_to(np.asarray(g, float), shape),
                full_of(val, shape))):
            raise Violation(f"param_changed:{pname}:{kind_of(val)}:result:"
                            f"after=Simulation.copy({what})",
                            f"{pname} of the copied simulation's survey "
                            "differs")
    has = 'standard_deviation' in s2.data
    if has != (sd is not None) or (has and not np.array_equal(
            s2.data['standard_deviation'].data, sd)):
        raise Violation(f"param_changed:standard_deviation:result:"
                        f"after=Simulation.copy({what})",
                        "explicit standard deviation of the copied "
                        "simulation's survey differs")
    if not _same(s2.data.observed.data, obs):
        raise Violation(f"content:data:observed:result:after=Simulation."
                        f"copy({what})", "observed data differ in the copy")
    if what == 'plain' and not solve:
        sim2.data['synthetic'][...] = syn_a.copy()
        sim2._computed = True
    got2 = float(sim2.misfit)
    if not abs(got2 - got) <= rtol*abs(got):
        raise Violation(f"misfit:Simulation.copy({what})",
                        f"misfit {got!r} is {got2!r} for the copy ({lab}, "
                        f"solve={solve})")


SUBS = {'history': case_history, 'misfit': case_misfit}


FUZZ = {'misfit': (MISFIT, case_misfit)}


def run(ctx):
    ctx.regression(SUBS)
    ctx.machine('history', SurveyMachine, ctx.n(400, 3000), steps=12)
    ctx.explore('misfit', MISFIT, case_misfit, ctx.n(400, 3000))
    # (quick: 130 instead of 200 runs since a case now builds up to four
    # simulations; keeps the quick tier inside its time budget)
    ctx.fuzz('misfit', ctx.n(130, 600))

"""Hypothesis strategies producing JSON-able *specs* and the builders that
expand a spec deterministically into grids / models / fields.

Every random choice is a Hypothesis draw: arrays are expanded from a drawn
64-bit seed with numpy's PCG64, so replay files only need the spec.
"""
import numpy as np
from hypothesis import strategies as st
from scipy.constants import mu_0

SEED = st.integers(0, 2**32-1)
MAPPINGS = ['Conductivity', 'LgConductivity', 'LnConductivity',
            'Resistivity', 'LgResistivity', 'LnResistivity']
CASES = ['isotropic', 'HTI', 'VTI', 'triaxial']


def rng_of(seed, salt=0):
    return np.random.Generator(np.random.PCG64([int(seed), int(salt)]))


def lgfloat(lo, hi):
    """log-uniform float in [lo, hi], stored as the float itself."""
    return st.floats(float(np.log10(lo)), float(np.log10(hi)),
                     allow_nan=False, allow_infinity=False
                     ).map(lambda u: float(10.0**u))


# ---------------------------------------------------------------- grids
def grid_spec(counts, kinds=('uniform', 'stretch', 'random')):
    """counts: list of admissible cell counts, or a list of three lists."""
    if counts and isinstance(counts[0], (list, tuple)):
        cs = [st.sampled_from(list(c)) for c in counts]
    else:
        cs = [st.sampled_from(list(counts))]*3
    return st.fixed_dictionaries({
        'n': st.tuples(*cs).map(list),
        'kind': st.sampled_from(list(kinds)),
        'scale': lgfloat(1, 1000),
        'fac': st.floats(1.0, 1.5),
        'seed': SEED,
    })


def build_widths(spec):
    rng = rng_of(spec['seed'], 1)
    out = []
    for n in spec['n']:
        kind = spec['kind']
        if kind == 'uniform':
            h = np.ones(n)*rng.uniform(0.5, 2)
        elif kind == 'stretch':
            c = rng.uniform(0, n-1)
            h = spec['fac']**np.abs(np.arange(n)-c)*rng.uniform(0.5, 2)
        else:
            h = rng.uniform(0.5, 2, size=n)
        out.append(h*spec['scale'])
    origin = rng.uniform(-1, 1, 3)*spec['scale']*np.array(spec['n'])
    return out, origin


def build_grid(spec):
    import emg3d
    h, origin = build_widths(spec)
    return emg3d.TensorMesh(h, origin=origin)


# --------------------------------------------------------------- models
def model_spec(cases=CASES, mappings=MAPPINGS, max_decades=3.0,
               mur=True, epsr=True):
    return st.fixed_dictionaries({
        'case': st.sampled_from(list(cases)),
        'mapping': st.sampled_from(list(mappings)),
        'decades': st.floats(0.0, max_decades),
        'hetero': st.sampled_from(['homog', 'blocks', 'noise', 'noise']),
        'mur': st.booleans() if mur else st.just(False),
        'epsr': st.booleans() if epsr else st.just(False),
        'seed': SEED,
    })


def build_cond(spec, shape, bg=1.0):
    """Conductivities (sx, sy, sz: arrays or None), mur, epsr."""
    rng = rng_of(spec['seed'], 2)
    shape = tuple(shape)

    def field():
        d = spec['decades']
        if spec['hetero'] == 'homog':
            lg = np.full(shape, rng.uniform(-d/2, d/2))
        elif spec['hetero'] == 'blocks':
            lg = np.full(shape, rng.uniform(-d/2, d/2))
            for _ in range(3):
                lo = [rng.integers(0, n) for n in shape]
                hi = [rng.integers(l+1, n+1) for l, n in zip(lo, shape)]
                lg[lo[0]:hi[0], lo[1]:hi[1], lo[2]:hi[2]] = rng.uniform(
                    -d/2, d/2)
        else:
            lg = rng.uniform(-d/2, d/2, size=shape)
        return bg*10.0**lg
    sx = field()
    sy = field() if spec['case'] in ('HTI', 'triaxial') else None
    sz = field() if spec['case'] in ('VTI', 'triaxial') else None
    mur = rng.uniform(0.5, 5, size=shape) if spec['mur'] else None
    epsr = rng.uniform(1, 80, size=shape) if spec['epsr'] else None
    return sx, sy, sz, mur, epsr


def map_forward(mapping, cond):
    """Checker-side forward mapping conductivity -> model parameter."""
    if cond is None:
        return None
    return {
        'Conductivity': lambda c: c,
        'LgConductivity': np.log10,
        'LnConductivity': np.log,
        'Resistivity': lambda c: 1.0/c,
        'LgResistivity': lambda c: -np.log10(c),
        'LnResistivity': lambda c: -np.log(c),
    }[mapping](np.asarray(cond, float))


def map_backward(mapping, x):
    if x is None:
        return None
    return {
        'Conductivity': lambda c: c,
        'LgConductivity': lambda c: 10.0**c,
        'LnConductivity': np.exp,
        'Resistivity': lambda c: 1.0/c,
        'LgResistivity': lambda c: 10.0**(-c),
        'LnResistivity': lambda c: np.exp(-c),
    }[mapping](np.asarray(x, float))


def build_model(grid, spec, bg=1.0):
    """Returns (emg3d.Model, (sx, sy, sz, mur, epsr))."""
    import emg3d
    sx, sy, sz, mur, epsr = build_cond(spec, grid.shape_cells, bg)
    m = spec['mapping']
    model = emg3d.Model(grid, map_forward(m, sx), map_forward(m, sy),
                        map_forward(m, sz), mu_r=mur, epsilon_r=epsr,
                        mapping=m)
    return model, (sx, sy, sz, mur, epsr)


# ------------------------------------------------- frequency / regime
def freq_spec(laplace=True):
    return st.fixed_dictionaries({
        'f': lgfloat(1e-2, 1e3),
        'laplace': st.booleans() if laplace else st.just(False),
        # induction number omega mu0 sigma h^2: realistic (80 %) / extreme
        'lgind': st.one_of(st.floats(-4, 1), st.floats(-4, 1),
                           st.floats(-4, 1), st.floats(-4, 1),
                           st.floats(-8, -4)),
    })


def freq_of(fs):
    """emg3d 'frequency' argument: negative = Laplace parameter s=-f."""
    return -fs['f'] if fs['laplace'] else fs['f']


def sval_of(fs):
    return fs['f'] if fs['laplace'] else 2j*np.pi*fs['f']


def bg_cond(fs, scale):
    """Background conductivity giving the drawn induction number."""
    return float(10.0**fs['lgind']/(2*np.pi*fs['f']*mu_0*scale**2))


def regime(fs):
    return 'ind>=1e-4' if fs['lgind'] >= -4 else 'ind<1e-4'


# --------------------------------------------------------------- fields
def pec_zero(fx, fy, fz):
    fx[:, 0, :] = fx[:, -1, :] = 0
    fx[:, :, 0] = fx[:, :, -1] = 0
    fy[0, :, :] = fy[-1, :, :] = 0
    fy[:, :, 0] = fy[:, :, -1] = 0
    fz[0, :, :] = fz[-1, :, :] = 0
    fz[:, 0, :] = fz[:, -1, :] = 0


def random_field(grid, seed, freq, salt=3, pec=True, scale=1.0):
    """Random emg3d.Field (complex for freq>0, real for Laplace)."""
    import emg3d
    rng = rng_of(seed, salt)
    f = emg3d.Field(grid, frequency=freq)
    v = rng.standard_normal(f.field.size)
    if np.iscomplexobj(f.field):
        v = v + 1j*rng.standard_normal(f.field.size)
    f.field[:] = v*scale
    if pec:
        pec_zero(f.fx, f.fy, f.fz)
    return f


def widths_class(spec):
    return spec['kind']

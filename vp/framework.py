"""Common machinery: Ctx (drives Hypothesis / enumerations), violations,
known findings, replay files, sharding and evidence.  DESIGN.md section 2."""
import collections
import hashlib
import json
import os
import subprocess
import sys
import tempfile
import time
import traceback

import numpy as np

VERIF = os.path.dirname(os.path.dirname(os.path.abspath(__file__)))
REPO = os.path.realpath(os.environ.get('EMG3D_UNDER_TEST', '/repo'))
EMG3D_DIR = os.path.join(REPO, 'emg3d') + os.sep


class Violation(Exception):
    """The property is violated.  `signature` is the root-cause bucket."""

    def __init__(self, signature, message='', details=None):
        super().__init__(f"{signature}: {message}")
        self.signature = signature
        self.message = message
        self.details = details or {}
        self.spec = None


class Inconclusive(Exception):
    """A precondition of the oracle could not be established; case dropped."""


class HarnessError(Exception):
    """Checker-side problem; never reported as violation."""


def jsonable(x, maxlen=None):
    """Convert numpy-ish things to plain JSON types."""
    if isinstance(x, dict):
        return {str(k): jsonable(v) for k, v in x.items()}
    if isinstance(x, (list, tuple)):
        return [jsonable(v) for v in x]
    if isinstance(x, np.ndarray):
        if np.iscomplexobj(x):
            return {'__complex_array__': [jsonable(x.real), jsonable(x.imag)]}
        return x.tolist()
    if isinstance(x, (np.bool_,)):
        return bool(x)
    if isinstance(x, np.integer):
        return int(x)
    if isinstance(x, np.floating):
        return float(x)
    if isinstance(x, (complex, np.complexfloating)):
        return {'__complex__': [float(x.real), float(x.imag)]}
    if isinstance(x, float):
        return x
    if x is None or isinstance(x, (bool, int, str)):
        return x
    return repr(x)


def abbreviate(x, limit=700):
    s = json.dumps(jsonable(x), default=repr)
    if len(s) > limit:
        return s[:limit] + f'...(+{len(s)-limit} chars)'
    return json.loads(s)


def _digest(x):
    return hashlib.sha1(
        json.dumps(jsonable(x), sort_keys=True, default=repr).encode()
    ).hexdigest()[:16]


def exception_to_violation(e, where=''):
    """Exception with a frame inside the code under test -> Violation;
    otherwise None (harness error)."""
    tb = traceback.extract_tb(e.__traceback__)
    inner = None
    for fr in tb:
        fn = os.path.realpath(fr.filename)
        if fn.startswith(EMG3D_DIR):
            inner = fr
    if inner is None:
        return None
    rel = os.path.relpath(os.path.realpath(inner.filename), REPO)
    sig = f"exception:{type(e).__name__}@{rel}:{inner.name}"
    if where:
        sig += f"[{where}]"
    return Violation(sig, str(e)[:500],
                     {'traceback': ''.join(traceback.format_exception(
                         type(e), e, e.__traceback__))[-3000:]})


class Rec:
    """Per-case recorder: classes, non-triviality key, sample note."""

    def __init__(self):
        self.classes = []
        self.nt_keys = []
        self.note_ = None

    def cls(self, *labels):
        self.classes.extend(str(x) for x in labels)

    def nt(self, key):
        self.nt_keys.append(_digest(key))

    def note(self, obj):
        self.note_ = obj


class Known:
    def __init__(self):
        path = os.path.join(VERIF, 'known_findings.json')
        self.entries = []
        if os.path.exists(path):
            with open(path) as f:
                self.entries = json.load(f).get('findings', [])
        # development only: extra entries (never set by registered commands)
        dev = os.environ.get('VERIF_DEV_KNOWN')
        if dev and os.path.exists(dev):
            with open(dev) as f:
                self.entries += json.load(f).get('findings', [])

    def match(self, pid, signature):
        for e in self.entries:
            if (e['property'] == pid and e.get('status') == 'known'
                    and e['signature'] == signature):
                return e
        return None

    def for_property(self, pid):
        return [e for e in self.entries if e['property'] == pid]


class Ctx:
    def __init__(self, pid, tier, seed, shard=(0, 1), scale=1.0, only=None):
        self.pid = pid
        self.tier = tier
        self.seed = seed
        self.shard = shard
        self.scale = scale
        self.only = set(only.split(',')) if only else None
        self.known = Known()
        self.evaluations = 0
        self.per_sub = collections.Counter()
        self.nt = set()
        self.classes = collections.Counter()
        self.samples = []
        self.inconclusive = collections.Counter()
        self.excluded = collections.Counter()
        self.violations = []       # dicts: signature, message, replay, sub
        self.known_hits = []       # dicts
        self.harness_errors = []
        self.notes = {}
        self.exhaustive = {}
        self._seen_sig = set()

    # ------------------------------------------------------------------
    def n(self, quick, thorough):
        """Case count for this tier (thorough value is per shard)."""
        v = quick if self.tier == 'quick' else thorough
        return max(1, int(round(v*self.scale)))

    @property
    def quick(self):
        return self.tier == 'quick'

    def hseed(self, sub, rnd=0, salt=0):
        h = hashlib.sha1(f"{self.pid}/{sub}".encode()).digest()
        return (self.seed*1000003 + self.shard[0]*7919 + rnd*104729 + salt*1299709 +
                int.from_bytes(h[:3], 'big')) % (2**31)

    def wants(self, sub):
        return self.only is None or sub in self.only

    # ------------------------------------------------------------------
    def _commit(self, sub, spec, rec):
        self.evaluations += 1
        self.per_sub[sub] += 1
        for c in rec.classes:
            self.classes[f"{sub}:{c}"] += 1
        nontriv = bool(rec.nt_keys)
        for k in rec.nt_keys:
            self.nt.add(f"{sub}:{k}")
        nsub = sum(1 for s in self.samples if s['sub'] == sub)
        if nsub < 3 and (nontriv or nsub == 0):
            self.samples.append({'sub': sub, 'nontrivial': nontriv,
                                 'case': abbreviate(spec),
                                 'note': abbreviate(rec.note_, 400)})

    def _record_violation(self, sub, v):
        """Returns True if this is a *known* finding."""
        k = self.known.match(self.pid, v.signature)
        spec = jsonable(v.spec)
        if k is not None:
            if v.signature not in self._seen_sig:
                print(f"KNOWN-FINDING: property={self.pid} {k['what']}"
                      f" [signature={v.signature}]", flush=True)
                self.known_hits.append({'signature': v.signature, 'sub': sub,
                                        'what': k['what']})
            self._seen_sig.add(v.signature)
            return True
        if v.signature in self._seen_sig:
            return False
        self._seen_sig.add(v.signature)
        rdir = os.path.join(VERIF, 'replays')
        os.makedirs(rdir, exist_ok=True)
        path = os.path.join(
            rdir, f"{self.pid}_{sub}_{_digest(v.signature)[:10]}.json")
        with open(path, 'w') as f:
            json.dump({'property': self.pid, 'sub': sub,
                       'signature': v.signature, 'message': v.message,
                       'details': jsonable(v.details), 'spec': spec,
                       'seed': self.seed, 'tier': self.tier}, f, indent=1,
                      default=repr)
        print(f"VIOLATION property={self.pid} replay={path}", flush=True)
        print(f"  signature: {v.signature}\n  message: {v.message[:600]}",
              flush=True)
        self.violations.append({'signature': v.signature, 'sub': sub,
                                'message': v.message[:600], 'replay': path})
        return False

    def _run_case(self, sub, fn, spec, skip):
        """Run one case; returns None or raises Violation (not excluded)."""
        rec = Rec()
        try:
            fn(spec, rec)
        except Violation as v:
            v.spec = spec
            if v.signature in skip:
                self.excluded[v.signature] += 1
                self._commit(sub, spec, rec)
                return
            raise
        except Inconclusive as e:
            self.inconclusive[f"{sub}:{str(e)[:60]}"] += 1
            self.evaluations += 1
            return
        except HarnessError:
            raise
        except Exception as e:
            if type(e).__module__.startswith('hypothesis'):
                raise
            v = exception_to_violation(e)
            if v is None:
                raise
            v.spec = spec
            if v.signature in skip:
                self.excluded[v.signature] += 1
                return
            raise v from e
        self._commit(sub, spec, rec)

    # ------------------------------------------------------------------
    def explore(self, sub, strategy, fn, n, shrink=True, max_rounds=8,
                salt=0):
        """Drive `fn(spec, rec)` with Hypothesis-generated JSON-able specs."""
        if not self.wants(sub):
            return
        import hypothesis
        from hypothesis import HealthCheck, Phase, given, settings
        skip = set()
        phases = [Phase.explicit, Phase.generate, Phase.target]
        if shrink:
            phases.append(Phase.shrink)
        for rnd in range(max_rounds):
            sett = settings(
                max_examples=n, database=None, deadline=None,
                derandomize=False, report_multiple_bugs=False,
                phases=phases, print_blob=False,
                suppress_health_check=[HealthCheck.too_slow,
                                       HealthCheck.data_too_large,
                                       HealthCheck.large_base_example,
                                       HealthCheck.differing_executors],
            )
            ctx = self

            @hypothesis.seed(self.hseed(sub, rnd, salt))
            @sett
            @given(strategy)
            def test(spec):
                ctx._run_case(sub, fn, spec, skip)

            try:
                test()
            except Violation as v:
                self._record_violation(sub, v)
                skip.add(v.signature)
                continue
            except HarnessError as e:
                raise
            except hypothesis.errors.HypothesisException as e:
                raise HarnessError(f"{sub}: hypothesis: {type(e).__name__}: "
                                   f"{str(e)[:500]}")
            break
        else:
            self.notes[f'{sub}:rounds'] = 'max rounds of collect-then-' \
                                          'continue reached'

    def fuzz(self, sub, runs, max_len=4096, timeout=3600, unit_timeout=300):
        """Coverage-guided campaign (atheris/libFuzzer over the Hypothesis
        strategy registered in the check's FUZZ table) in a subprocess; its
        counters, samples and violations are merged under `<sub>@fuzz`."""
        if not self.wants(sub) and not self.wants(sub + '@fuzz'):
            return
        import re
        import shutil
        sdir = os.path.join(VERIF, '.scratch')
        os.makedirs(sdir, exist_ok=True)
        tmpd = tempfile.mkdtemp(prefix=f'fuzz_{self.pid}_{sub}_', dir=sdir)
        out = os.path.join(tmpd, 'result.json')
        cmd = [sys.executable, '-m', 'vp.fuzz', self.pid, sub,
               '--runs', str(int(runs)), '--seed', str(self.hseed(sub, 99)),
               '--tier', self.tier, '--shard',
               f'{self.shard[0]}/{self.shard[1]}', '--out', out,
               '--max-len', str(max_len),
               '--unit-timeout', str(int(unit_timeout))]
        try:
            try:
                p = subprocess.run(cmd, cwd=VERIF, capture_output=True,
                                   text=True, timeout=timeout)
                err = p.stderr or ''
                rc = p.returncode
            except subprocess.TimeoutExpired as e:
                err = (e.stderr.decode(errors='replace')
                       if isinstance(e.stderr, bytes) else (e.stderr or ''))
                rc = 'timeout'
                self.notes[f'{sub}@fuzz:timeout'] = timeout
            if not os.path.exists(out):
                raise HarnessError(f"{sub}@fuzz: no result (rc={rc}): "
                                   f"{err[-1500:]}")
            with open(out) as f:
                res = json.load(f)
        finally:
            shutil.rmtree(tmpd, ignore_errors=True)
        name = sub + '@fuzz'
        self.evaluations += res.get('evaluations', 0)
        self.per_sub[name] += res.get('evaluations', 0)
        for k in res.get('nt', []):
            self.nt.add(k)
        for k, v in res.get('classes', {}).items():
            self.classes[k.replace(sub + ':', name + ':', 1)] += v
        for k, v in res.get('inconclusive', {}).items():
            self.inconclusive[k] += v
        for k, v in res.get('excluded', {}).items():
            self.excluded[k] += v
        for s in res.get('samples', [])[:2]:
            s['sub'] = name
            self.samples.append(s)
        for v in res.get('violations', []):
            if v['signature'] in self._seen_sig:
                continue
            self._seen_sig.add(v['signature'])
            print(f"VIOLATION property={self.pid} replay={v['replay']}",
                  flush=True)
            print(f"  signature: {v['signature']}\n  message: "
                  f"{v['message']}", flush=True)
            self.violations.append(v)
        for k in res.get('known_hits', []):
            if k['signature'] not in self._seen_sig:
                self._seen_sig.add(k['signature'])
                print(f"KNOWN-FINDING: property={self.pid} {k['what']}"
                      f" [signature={k['signature']}]", flush=True)
                self.known_hits.append(k)
        self.harness_errors += res.get('harness_errors', [])
        cov = re.findall(r'cov: (\d+) ft: (\d+)', err)
        info = {'executions': res.get('fuzz_executions', 0),
                'requested_runs': int(runs), 'exit': rc}
        if cov:
            info['edges_covered'] = int(cov[-1][0])
            info['features'] = int(cov[-1][1])
            info['edges_after_first_input'] = int(cov[0][0])
        if 'ALARM: working on the last Unit' in err or 'libFuzzer: timeout' in err:
            # one generated input ran longer than unit_timeout seconds:
            # libFuzzer ended the campaign there (a time budget hit is
            # inconclusive, never a violation); results so far are kept
            info['ended_by_slow_unit_s'] = int(unit_timeout)
            self.inconclusive[f'{name}:slow unit (> {unit_timeout} s)'] += 1
        self.notes[f'{name}:libfuzzer'] = info
        if info['executions'] < min(50, int(runs)) and \
                not self.harness_errors and \
                'ended_by_slow_unit_s' not in info and rc != 'timeout':
            raise HarnessError(f"{name}: only {info['executions']} executions "
                               f"(rc={rc}): {err[-800:]}")

    def enumerate(self, sub, specs, fn, exhaustive=None):
        """Run `fn` over an explicit (finite) list of specs; this shard takes
        every n-th.  All violations are collected (one per signature)."""
        if not self.wants(sub):
            return
        i, n = self.shard
        count = 0
        skip = set()
        for k, spec in enumerate(specs):
            if k % n != i:
                continue
            count += 1
            try:
                self._run_case(sub, fn, spec, skip)
            except Violation as v:
                self._record_violation(sub, v)
                skip.add(v.signature)
        if exhaustive is not None:
            self.exhaustive[sub] = bool(exhaustive)
        return count

    def machine(self, sub, machine_cls, n, steps, shrink=True, max_rounds=6):
        """Run a RuleBasedStateMachine.  The machine must keep `self.history`
        (JSON-able) and `self.rec` (Rec); violations raised in rules get the
        history attached as spec.  `machine_cls.ctx` / `.skip` are set here."""
        if not self.wants(sub):
            return
        import hypothesis
        from hypothesis import HealthCheck, Phase, settings
        from hypothesis.stateful import run_state_machine_as_test
        skip = set()
        phases = [Phase.explicit, Phase.generate, Phase.target]
        if shrink:
            phases.append(Phase.shrink)
        for rnd in range(max_rounds):
            sett = settings(
                max_examples=n, stateful_step_count=steps, database=None,
                deadline=None, derandomize=False, report_multiple_bugs=False,
                phases=phases, print_blob=False,
                suppress_health_check=[HealthCheck.too_slow,
                                       HealthCheck.data_too_large,
                                       HealthCheck.filter_too_much,
                                       HealthCheck.differing_executors],
            )
            machine_cls.ctx = self
            machine_cls.sub = sub
            machine_cls.skip = skip
            try:
                import io
                import contextlib
                buf = io.StringIO()
                with contextlib.redirect_stdout(buf):
                    run_state_machine_as_test(
                        hypothesis.seed(self.hseed(sub, rnd))(machine_cls),
                        settings=sett)
            except Violation as v:
                self._record_violation(sub, v)
                skip.add(v.signature)
                continue
            except HarnessError:
                raise
            except hypothesis.errors.HypothesisException as e:
                raise HarnessError(f"{sub}: hypothesis: {type(e).__name__}: "
                                   f"{str(e)[:500]}")
            break

    # hooks for machines -------------------------------------------------
    def machine_step(self, machine, rule_fn):
        """Execute a rule body; convert exceptions; honour exclusions.
        Returns False if the machine should stop acting (excluded failure)."""
        try:
            rule_fn()
        except Violation as v:
            v.spec = {'history': list(machine.history),
                      'config': getattr(machine, 'config', None)}
            if v.signature in machine.skip:
                self.excluded[v.signature] += 1
                machine.dead = True
                return False
            raise
        except Inconclusive as e:
            self.inconclusive[f"{machine.sub}:{str(e)[:60]}"] += 1
            machine.dead = True
            return False
        except HarnessError:
            raise
        except Exception as e:
            if type(e).__module__.startswith('hypothesis'):
                raise
            last = machine.history[-1][0] if machine.history else ''
            v = exception_to_violation(e, where=str(last))
            if v is None:
                raise
            v.spec = {'history': list(machine.history),
                      'config': getattr(machine, 'config', None)}
            if v.signature in machine.skip:
                self.excluded[v.signature] += 1
                machine.dead = True
                return False
            raise v from e
        return True

    def machine_done(self, machine):
        self._commit(machine.sub, {'history': machine.history,
                                   'config': getattr(machine, 'config', None)},
                     machine.rec)

    # ------------------------------------------------------------------
    def regression(self, subs):
        """Re-execute the committed replay files of known / fixed findings."""
        for e in self.known.for_property(self.pid):
            rp = e.get('replay')
            if not rp:
                continue
            path = os.path.join(VERIF, rp)
            with open(path) as f:
                data = json.load(f)
            sub = data['sub']
            if not self.wants(sub):
                continue
            fn = subs[sub]
            rec = Rec()
            self.per_sub['regression'] += 1
            self.evaluations += 1
            try:
                try:
                    fn(data['spec'], rec)
                except (Violation, Inconclusive, HarnessError):
                    raise
                except Exception as ex:
                    v = exception_to_violation(ex)
                    if v is None:
                        raise
                    raise v from ex
            except Violation as v:
                v.spec = data['spec']
                if e.get('status') == 'known' and v.signature == e['signature']:
                    self._record_violation(sub, v)
                else:
                    # fixed finding is back, or a different failure
                    self._seen_sig.discard(v.signature)
                    if not self._record_violation(sub, v):
                        self.violations[-1]['regression_of'] = e['signature']
                continue
            except Inconclusive:
                continue
            if e.get('status') == 'known':
                print(f"NOTE: known finding no longer reproduces: "
                      f"{e['signature']}", flush=True)
                self.notes[f"not_reproduced:{e['signature']}"] = True

    # ------------------------------------------------------------------
    def result(self, mod, wall):
        return {
            'evaluations': self.evaluations,
            'per_sub': dict(self.per_sub),
            'nt': sorted(self.nt),
            'classes': dict(self.classes),
            'samples': self.samples,
            'inconclusive': dict(self.inconclusive),
            'excluded': dict(self.excluded),
            'violations': self.violations,
            'known_hits': self.known_hits,
            'harness_errors': self.harness_errors,
            'notes': self.notes,
            'exhaustive': self.exhaustive,
            'wall': wall,
            'shard': list(self.shard),
        }


# ----------------------------------------------------------------------
def run_sharded(pid, mod, args, seed, nshards, t0):
    tmpd = tempfile.mkdtemp(prefix=f'shards_{pid}_',
                            dir=os.path.join(VERIF, '.cache'))
    procs = []
    for i in range(nshards):
        out = os.path.join(tmpd, f'{i}.json')
        cmd = [sys.executable, '-m', 'vp.runner', pid, '--tier', args.tier,
               '--shard', f'{i}/{nshards}', '--out', out,
               '--scale', str(args.scale)]
        if args.only:
            cmd += ['--only', args.only]
        log = open(os.path.join(tmpd, f'{i}.log'), 'w')
        procs.append((subprocess.Popen(cmd, stdout=log, stderr=subprocess.STDOUT,
                                       cwd=VERIF), out, log))
    results = []
    for p, out, log in procs:
        p.wait()
        log.close()
        with open(log.name) as f:
            txt = f.read()
        for line in txt.splitlines():
            if line.startswith(('HARNESS-ERROR', 'Traceback', 'NOTE:')):
                print(f"[shard] {line}")
        if os.path.exists(out):
            with open(out) as f:
                results.append(json.load(f))
        else:
            results.append({'harness_errors': [f'shard died: {txt[-1500:]}'],
                            'evaluations': 0})
    import shutil
    shutil.rmtree(tmpd, ignore_errors=True)
    return finish(pid, mod, args, seed, results, t0)


def finish(pid, mod, args, seed, results, t0):
    ev = 0
    nt = set()
    classes = collections.Counter()
    per_sub = collections.Counter()
    inconc = collections.Counter()
    excl = collections.Counter()
    samples, viol, known, herr = [], {}, {}, []
    notes, exhaustive = {}, {}
    for r in results:
        ev += r.get('evaluations', 0)
        nt.update(r.get('nt', []))
        classes.update(r.get('classes', {}))
        per_sub.update(r.get('per_sub', {}))
        inconc.update(r.get('inconclusive', {}))
        excl.update(r.get('excluded', {}))
        for s in r.get('samples', []):
            if sum(1 for x in samples if x['sub'] == s['sub']) < 3:
                samples.append(s)
        for v in r.get('violations', []):
            viol.setdefault(v['signature'], v)
        for k in r.get('known_hits', []):
            known.setdefault(k['signature'], k)
        herr += r.get('harness_errors', [])
        notes.update(r.get('notes', {}))
        for k, v in r.get('exhaustive', {}).items():
            exhaustive[k] = exhaustive.get(k, True) and v
    # A precondition that drops a large share of the cases leaves a check
    # that silently tests little (and a regression that makes every case
    # 'inconclusive' must not pass): bounded per sub-check.
    inc_sub = collections.Counter()
    for k, v in inconc.items():
        inc_sub[k.split(':', 1)[0]] += v
    limit = float(getattr(mod, 'MAX_INCONCLUSIVE', 0.3))
    for sub, n_inc in inc_sub.items():
        done = per_sub.get(sub, 0) + per_sub.get(sub + '@fuzz', 0)
        if n_inc >= 5 and n_inc > limit*(n_inc + done):
            herr.append(f"{sub}: {n_inc} of {n_inc + done} cases were "
                        f"inconclusive (> {limit:.0%}): the oracle's "
                        "preconditions fail too often to decide anything")
    # Sharded runs print their lines in the children's logs only; repeat.
    if len(results) > 1 or args.shard:
        for k in known.values():
            print(f"KNOWN-FINDING: property={pid} {k['what']} "
                  f"[signature={k['signature']}]")
        for v in viol.values():
            print(f"VIOLATION property={pid} replay={v['replay']}")
            print(f"  signature: {v['signature']}\n  message: {v['message']}")
    wall = time.time() - t0
    evidence = {
        'property_id': pid,
        'tier': args.tier,
        'seed': seed,
        'level': 'exploration',
        'coverage': {
            'evaluations': ev,
            'distinct_nontrivial': len(nt),
            'rule': getattr(mod, 'RULE', ''),
            'samples': samples,
            'per_subcheck': dict(sorted(per_sub.items())),
            'classes': dict(sorted(classes.items())),
            'inconclusive': dict(inconc),
            'excluded_by_signature': dict(excl),
            'known_findings_hit': list(known.values()),
            'exhaustive': bool(getattr(mod, 'EXHAUSTIVE', False)) and
            bool(exhaustive) and all(exhaustive.values()),
            'exhaustive_subchecks': exhaustive,
            'shards': len(results),
            'notes': notes,
        },
        'assumptions': list(getattr(mod, 'ASSUMPTIONS', [])),
        'wall_s': round(wall, 2),
        'violations': len(viol),
    }
    if herr:
        evidence['coverage']['harness_errors'] = herr[:5]
    if not args.no_evidence and not args.shard:
        os.makedirs(os.path.join(VERIF, 'evidence'), exist_ok=True)
        with open(os.path.join(VERIF, 'evidence', f'{pid}.json'), 'w') as f:
            json.dump(evidence, f, indent=1, default=repr)
    print(f"{pid} tier={args.tier} seed={seed} evaluations={ev} "
          f"distinct_nontrivial={len(nt)} violations={len(viol)} "
          f"known={len(known)} inconclusive={sum(inconc.values())} "
          f"wall={wall:.1f}s")
    if viol:
        return 1
    if herr:
        for h in herr[:3]:
            print("HARNESS-ERROR:", h[-1500:])
        return 2
    return 0


def replay(mod, pid, path):
    with open(path) as f:
        data = json.load(f)
    sub = data['sub']
    fn = mod.SUBS[sub]
    known = Known()
    try:
        try:
            fn(data['spec'], Rec())
        except (Violation, Inconclusive):
            raise
        except Exception as e:
            v = exception_to_violation(e)
            if v is None:
                raise
            raise v from e
    except Violation as v:
        k = known.match(pid, v.signature)
        if k:
            print(f"KNOWN-FINDING: property={pid} {k['what']} "
                  f"[signature={v.signature}]")
            return 0
        print(f"VIOLATION property={pid} replay={path}")
        print(f"  signature: {v.signature}\n  message: {v.message[:1000]}")
        return 1
    except Inconclusive as e:
        print(f"replay inconclusive: {e}")
        return 0
    print(f"replay passed: {path}")
    return 0

#!/usr/bin/env python3
"""tools/add_finding.py <property> <known|fixed> <signature> <replay-path-rel> <commit-or-'-'> <what ...>
Adds (or replaces, keyed on property+signature) an entry of known_findings.json.
Never used at check run time."""
import json, os, sys
V = os.path.dirname(os.path.dirname(os.path.abspath(__file__)))
pid, status, sig, replay, commit = sys.argv[1:6]
what = ' '.join(sys.argv[6:])
p = os.path.join(V, 'known_findings.json')
d = json.load(open(p))
d['findings'] = [e for e in d['findings'] if not (e['property'] == pid and e['signature'] == sig)]
e = {'property': pid, 'status': status, 'signature': sig, 'what': what,
     'replay': None if replay == '-' else replay}
if status == 'fixed':
    e['commit'] = commit
    e['line'] = f"fixed: property={pid} {commit} {what}"
else:
    e['line'] = f"KNOWN-FINDING: property={pid} {what}"
d['findings'].append(e)
d['findings'].sort(key=lambda x: (x['property'], x['signature']))
json.dump(d, open(p, 'w'), indent=1)
print(e['line'])

#!/bin/bash
# usage: tools/seed_eval.sh <PID> [<seed-dir> [<name>]]
# Confirms a seeded change delivered by a sub-agent and evaluates the checks
# against it.  Steps (all in a fresh scratch worktree of /repo HEAD):
#   1. demo passes on the unchanged tree   2. patch applies
#   3. demo fails with the patch           4. unedited test suite still passes
#   5. ./check <PID> --tier quick against the patched tree (expect exit 1)
# Results -> /verif/seeded/<name>/{patch.diff,demo.py,notes.md,meta.json,check.log}
PID=$1
SRC=${2:-/tmp/seed_$PID/_seed}
NAME=${3:-$PID}
OUT=/verif/seeded/$NAME
mkdir -p $OUT
cp $SRC/patch.diff $OUT/patch.diff
cp $SRC/demo.py $OUT/demo.py 2>/dev/null
cp $SRC/notes.md $OUT/notes.md 2>/dev/null
WT=$(mktemp -d /tmp/wts_XXXXXX); rmdir $WT
git -C /repo worktree add --detach $WT HEAD >/dev/null 2>&1 || exit 3
run() { (cd $WT && PYTHONPATH=$WT NUMBA_CACHE_DIR=$WT/.numba_cache timeout 1800 /venv/bin/python "$@"); }
run $OUT/demo.py > $OUT/demo_unchanged.log 2>&1; D0=$?
git -C $WT apply $OUT/patch.diff; AP=$?
run $OUT/demo.py > $OUT/demo_patched.log 2>&1; D1=$?
(cd $WT && PYTHONPATH=$WT NUMBA_CACHE_DIR=$WT/.numba_cache timeout 3000 /venv/bin/python -m pytest -q -p no:cacheprovider --timeout=900 tests > $OUT/tests_patched.log 2>&1)
TESTS=$(tail -1 $OUT/tests_patched.log)
FAILED=$(grep "^FAILED" $OUT/tests_patched.log | grep -v "test_main\[subprocess\]\|test_main2\[subprocess\]" | wc -l)
cd /verif
EMG3D_UNDER_TEST=$WT ./check $PID --tier quick --no-evidence > $OUT/check.log 2>&1; CK=$?
SIGS=$(grep "signature:" $OUT/check.log | sed 's/.*signature: //' | head -5 | tr '\n' ';')
git -C /repo worktree remove --force $WT; git -C /repo worktree prune
python3 - <<EOF
import json
meta = {
 "property": "$PID",
 "name": "$NAME",
 "demo_exit_unchanged_tree": $D0,
 "patch_applies": $AP == 0,
 "demo_exit_patched_tree": $D1,
 "test_suite_patched": """$TESTS""",
 "unexpected_test_failures": $FAILED,
 "confirmed": ($D0 == 0 and $AP == 0 and $D1 != 0 and $FAILED == 0),
 "check_quick_exit_on_patched_tree": $CK,
 "caught_by_quick": $CK == 1,
 "signatures": """$SIGS""",
 "ran": "tools/seed_eval.sh $PID (fresh worktree of /repo HEAD; demo both ways; full pytest; ./check $PID --tier quick via EMG3D_UNDER_TEST)",
}
try:
    old = json.load(open("$OUT/meta.json"))
    for k in ("needs", "what"):
        if k in old: meta[k] = old[k]
except Exception:
    pass
json.dump(meta, open("$OUT/meta.json", "w"), indent=1)
print(json.dumps(meta, indent=1))
EOF

#!/bin/bash
# usage: tools/thorough_sweep.sh [ids...]  - thorough tier of each check on the
# unchanged tree, one after the other (each uses up to 16 shards), no evidence.
cd "$(dirname "$0")/.." || exit 2
IDS=${@:-C02 C03 C04 C15 C20 C14 C16 C13 C10 C09 C19 C17 C01 C05 C06 C07 C08 C12 C18 C11}
OUT=.scratch/thorough_$$; mkdir -p $OUT
./setup.sh > $OUT/setup.log 2>&1 || { echo "setup failed"; cat $OUT/setup.log; exit 2; }
for id in $IDS; do
  /usr/bin/time -f "%e s" ./check $id --tier thorough --no-evidence > $OUT/$id.log 2>&1
  echo "$id exit=$? $(tail -2 $OUT/$id.log | tr '\n' ' ' | cut -c1-260)"
  grep -E "VIOLATION|signature:|HARNESS-ERROR" $OUT/$id.log | head -10
done

#!/bin/bash
# usage: tools/mutant.sh <check-id> <patch-file | "sed:<file>:<expr>"> [extra check args]
# Applies a mutation to a scratch worktree of /repo, runs the quick tier of
# the check against it (EMG3D_UNDER_TEST), removes the worktree.
ID=$1; MUT=$2; shift 2
WT=$(mktemp -d /tmp/wt_XXXXXX)
rmdir $WT
git -C /repo worktree add --detach $WT HEAD >/dev/null 2>&1 || exit 3
# carry over uncommitted changes of /repo's working tree (none normally)
if [[ $MUT == sed:* ]]; then
    IFS=: read -r _ FILE EXPR <<< "$MUT"
    sed -i -E "$EXPR" $WT/$FILE
else
    git -C $WT apply "$MUT" || { echo "patch failed"; git -C /repo worktree remove --force $WT; exit 3; }
fi
git -C $WT diff --stat | tail -1
if [ -z "$(git -C $WT diff)" ]; then echo "MUTATION DID NOT CHANGE ANYTHING"; fi
cd /verif
EMG3D_UNDER_TEST=$WT ./check $ID --no-evidence "$@"
RC=$?
git -C /repo worktree remove --force $WT
git -C /repo worktree prune
echo "exit=$RC"
exit $RC

#!/usr/bin/env python3
"""Regenerates /verif/MANIFEST.json from the table below (kept valid at all
times: properties without a built check are listed under not_applicable with
the reason 'check not built yet')."""
import json
import os

VERIF = os.path.dirname(os.path.dirname(os.path.abspath(__file__)))

# id -> (technique, level text, level note, design ref)
CHECKS = {}


def add(pid, technique, text, note, ref=None):
    CHECKS[pid] = (technique, text, note, ref or f"DESIGN.md section 3, {pid}")


add('C01',
    "Hypothesis over grid x model x source x initial field x full solver "
    "configuration product; implication oracle 'reported success => "
    "independently recomputed residual < tol*||s||' with the checker's "
    "assembled operator, plus report-consistency invariants",
    "Exploration: emg3d.solve / solve_source are run on generated small "
    "problems (2..12 cells per direction, any parity) with configurations "
    "drawn from the whole documented product; whenever success is reported "
    "(info dict, or the printed warning/one-liner/log when return_info is "
    "off) the residual of the returned or in-place field is recomputed with "
    "the reference operator and compared with tol*||s||; PEC, dtype, "
    "return shape, error figures, zero-source and exit/message consistency "
    "are checked on every run. Both outcomes (success/failure) occur in "
    "quantity.",
    "Trusted: vp/refop.py (cross-validated by C02); slack tol*||s||*1e-9 + "
    "1e4 eps || |A||e|+|s| ||. Grids <= 800 cells in the generated tier.")

add('C02',
    "Hypothesis-generated coefficients x enumerated grid shapes {2..5}^3; "
    "full interior edge basis through emg3d.core.amat_x; differential "
    "oracle = independently assembled sparse operator",
    "Exploration: for every shape with 2..5 cells per direction and "
    "generated widths / anisotropy / mu_r / epsilon_r / s the dense matrix "
    "of the matrix-free kernel is compared entrywise with C^T M_f C + s mu0 "
    "M_e (checker-side assembly), plus symmetry, gradient null space, "
    "solver.residual, jit-vs-py_func agreement, and a model re-use oracle "
    "(other domain, repeat, setters, in-place edits; VolumeModel must not "
    "modify the model). Complete for the linear "
    "map on each generated coefficient set; coefficient space is sampled.",
    "Trusted: checker-side assembly vp/refop.py (no code shared with "
    "emg3d.core), numpy/scipy; tolerance 1e4 eps relative to the sum of "
    "absolute terms.")

add('C03',
    "Hypothesis over grids x 8 line-relaxation codes x sweep counts; "
    "oracles against the checker-assembled operator: fixed point of the "
    "exact solution (residual form), exactly relaxed last block, affinity, "
    "boundary never written; differential core.solve vs dense solve",
    "Exploration: each smoothing variant (point-wise, line x/y/z and "
    "combinations, forward/backward) is exercised through solver.smoothing "
    "(and the kernels' Python source on a sub-sample) on generated small "
    "grids/models in both induction-number regimes and must act as a "
    "consistent relaxation of A_ref; the banded LDL^T solver is compared "
    "with numpy.linalg.solve on generated complex-symmetric 11-diagonal "
    "systems (n=1..80).",
    "Trusted: vp/refop.py assembly; rounding floor 1e-10 (residual form) "
    "relative to |A||e|+|s|. A sweep silently skipping interior nodes is "
    "outside this property (seen by C06).")

add('C04',
    "Hypothesis over 7 coarsening patterns x grids; full fine and coarse "
    "edge bases through solver.restriction / prolongation; oracles: R == "
    "P^T on interior edges, P == reference interpolation, row sums, "
    "additivity, children sums",
    "Exploration: for every coarsening pattern and generated stretched "
    "grids the complete linear maps R and P are extracted column by column "
    "and compared with each other and with a Kronecker-product reference "
    "built from node coordinates; coarse grid/model conservation checked "
    "against the checker's own child sums.",
    "Trusted: reference prolongation in vp/checks/c04_transfer.py; "
    "tolerance 1e4 eps. Coarsened directions have even cell counts >= 4 "
    "(what the multigrid recursion can coarsen).")

add('C05',
    "exhaustive enumeration of grid shapes x cycle x covering set of "
    "(semicoarsening, linerelaxation, clevel) plus Hypothesis-random "
    "configurations, on the real emg3d.solve with numerical kernels "
    "replaced by recorders; oracle = independent textbook V/W/F reference "
    "generator; recorder validated against the parsed verb=5 log",
    "Exploration with exhaustive sub-domains: quick enumerates all shapes "
    "{2..9}^3 (thorough {2..40}^3 and n<=1024 per single direction) x V/W/F "
    "x a rotating covering design of patterns; every recorded event "
    "sequence (smoothing kernel, level shape, sweeps, restriction, "
    "prolongation) must equal the reference, and direct invariants (>=2 "
    "cells, no line relaxation along 2 cells, halve only even n>2) are "
    "asserted; the full-numerics verb=5 log, the QC figure and the header's "
    "coarsest grid are compared with the same reference.",
    "Trusted: reference generator in vp/checks/c05_cycling.py. The stubbed "
    "run exercises solve/MGParameters/multigrid/smoothing dispatch/"
    "restriction bookkeeping unmodified; only the four Gauss-Seidel kernels, "
    "core.restrict, solver.prolongation and solver.residual are recorders.")

add('C15',
    "Hypothesis over constructed grid pairs x values x mode; oracles: "
    "conservation, range, identity, nearest fill, differential against an "
    "independent tensor-product overlap reference and against "
    "discretize.utils.volume_average, exact transposition of the adjoint, "
    "mapping invariance in log mode, jit-vs-py_func",
    "Exploration: grid pairs are built by construction per direction "
    "(ident/same/refine/coarsen/inside/outside/shift/disjoint, 1..12 "
    "cells, exact integer lattice or float nodes with large offsets), "
    "values over up to 8 decades; emg3d.maps.interpolate(method='volume'), "
    "its adjoint, Model.interpolate_to_grid and the weight kernel are each "
    "compared with a checker-side reference and the named peer operator.",
    "Trusted: checker-side overlap reference in vp/checks/c15_volavg.py, "
    "discretize as named peer; tolerance 1e4 eps kappa (kappa accounts for "
    "rounding of float node coordinates; 1 on the exact lattice).")

add('C07',
    "Hypothesis over survey x mapping x anisotropy x noise model x "
    "perturbation direction; oracle: central finite differences (+ Richardson) "
    "of the misfit of forward data from DIRECT sparse solves of the "
    "checker-assembled operator converge to <gradient, direction>; "
    "misfit vs the checker's own formula",
    "Exploration: generated small stretched problems with mixed source "
    "and receiver types (incl. source-relative and magnetic receivers, "
    "wires, dipoles in all coordinate formats), NaN-masked observations and "
    "all noise-parameter shapes; the adjoint-state gradient is compared "
    "with FD of the misfit (checker's formula on direct-solve data, steps "
    "2e-2, 1e-2, 1e-3 + Richardson; threshold 1e-5 |g||d|, measured "
    "median 2e-9, max 8e-7); whole source-frequency pairs / receivers "
    "without data are generated too.",
    "Trusted: vp/refop.py + emg3d's source vectors and receiver sampling "
    "(C09/C10) for the FD side; cases where emg3d's own data differ from "
    "the direct data by > 1e-6 or a solve fails are inconclusive. Magnetic "
    "sources are generated in the 3rd..3rd-last cell (supported away from "
    "the outermost cells).")

add('C20',
    "Hypothesis over time vectors x bands x signals x transforms x coarse "
    "options x spectra (constructor path and setter sequences); oracles: "
    "partition of the required frequencies, band restriction, pass-through, "
    "checker-side cubic spline in log f, extrapolation facts, direct "
    "empymod.model.tem on the filled spectrum with input-derived arguments",
    "Exploration: every generated Fourier object is checked against facts "
    "derived only from its inputs (never from the object): three disjoint "
    "index sets, computed frequencies in band, exact pass-through, in-band "
    "equality with an independently evaluated cubic spline, real part "
    "constant and imaginary part shrinking monotonically below fmin, and "
    "freq2time == the reference transform; a second sub-check reaches the "
    "same settings through permuted setter sequences.",
    "Trusted: empymod (check_time, tem) and scipy's "
    "InterpolatedUnivariateSpline as reference implementations; standard "
    "DLF only with a single time (2-D freq_required otherwise).")

add('C08',
    "Hypothesis over problems x gridding modes x file mode; oracles: "
    "Richardson-extrapolated central differences of direct-solve forward "
    "data (checker-assembled operator) vs jvec; adjoint identity Re<w,Jv> = <J^T w,v>; "
    "jtvec(residual*weights) vs gradient of a fresh simulation",
    "Exploration: (a) on generated 'same'-grid problems (mixed sources and "
    "receivers, six mappings, four anisotropy cases, NaN-masked data, in "
    "memory and file based) jvec is compared with the FD derivative of the "
    "data (tolerance 1e-4 ||Jv||, measured median 1e-8, max 7e-6), the adjoint identity "
    "is checked for random real v and complex w, and jtvec of the weighted "
    "residual must equal the gradient; (b) the adjoint identity is checked "
    "for every gridding mode {same, single, frequency, source, both} with "
    "generated gridding options.",
    "Trusted: vp/refop.py direct solves + emg3d source vectors/receiver "
    "sampling for the FD side; data-space vectors are zero where the observed datum is missing; non-converged "
    "cases are inconclusive.")

add('C09',
    "Hypothesis over grids x positions x angles x fields; oracles: exact "
    "transposition of get_receiver('linear') and point-source vectors "
    "against each other and against checker-side trilinear / face weights "
    "and refop.curl; NaN region; reciprocity bounded by a term derived from "
    "the actual residuals",
    "Exploration: electric and magnetic point receivers are compared with "
    "the inner product of the field and the unit point-source vector and "
    "with the checker's own interpolation weights (positions on nodes, one "
    "ulp off, cell centres, all azimuth/elevation classes, real/complex "
    "fields, mu_r none/constant/heterogeneous); NaN exactly outside "
    "[second node, second-last node]; reciprocity of two exchanged "
    "emg3d.solve runs (e-e, m-m) within tol(||e2|| ||b1|| + ||e1|| ||b2||)/"
    "|s mu0| plus the exact residual identity.",
    "Trusted: vp/refop.py curl/assembly, checker-side weights in "
    "vp/checks/c09_receivers.py; reciprocity bound relies on the solver's "
    "success certificate (C01).")

add('C16',
    "Hypothesis over all gridding inputs of origin_and_widths / "
    "construct_mesh; oracle: postconditions recomputed from the inputs "
    "with the checker's own skin depth / wavelength / domain formulas, or "
    "the documented RuntimeError / ValueError",
    "Exploration: inputs in every accepted format (domain/distance/vector, "
    "tuple/dict/per-direction None, stretching pairs, width limits, pps, "
    "lambda_factor, max_buffer, lambda_from_center, center_on_edge, sea "
    "surface, cell-number lists <= 256, six mappings, property lists of "
    "length 1,2,3,4,7); every returned mesh is checked for permitted cell "
    "count, positive widths, coverage of survey domain + buffer, stretching "
    "bound (with sea-surface allowance), centre placement, retained vector "
    "nodes and sea surface node-or-warning; otherwise only 'No suitable "
    "grid found' or the documented ValueError is accepted.",
    "Trusted: checker-side formulas in vp/checks/c16_gridding.py (the "
    "Laplace skin-depth convention of the code comment is adopted); it "
    "never claims that a mesh should have been found (guarded at exit 2 "
    "if < 60 % of designed-feasible inputs return one).")

add('C12',
    "Hypothesis rule-based state machine over the public Simulation "
    "operations (<= 8 steps); oracle: results of a FRESH simulation of the "
    "current model (reference model), type/NaN-pattern checks, "
    "fork-and-mutate independence",
    "Exploration of call histories: compute, misfit, gradient, jvec, jtvec, "
    "get_efield/hfield, clean(3), copy(4), to_dict/from_dict(4), "
    "to_file/from_file(3 formats x 4), model replacement + clean, on an "
    "isotropic and a VTI problem, in memory and file based, tol != "
    "tol_gradient; every reported synthetic/misfit/gradient/jvec/jtvec is "
    "compared with the fresh-simulation reference, exceptions on "
    "documented operations are violations, and mutating a copy/reloaded "
    "simulation must leave the original bit-identical; in addition every "
    "ordered pair of state-changing operations (quick 15x15, thorough "
    "28x28) is enumerated after a gradient and followed by the queries.",
    "Trusted: fresh-simulation references computed once per process; "
    "thresholds 1e-6 (data, misfit) and 1e-3 of max-norm (gradient, jvec, "
    "jtvec; 1e2 x tol_gradient) - bit-identical on the repaired tree.")

add('C13',
    "Hypothesis rule-based state machine on Survey with a Python-side model "
    "of noise floor / relative error / standard deviation; formula oracle "
    "for standard deviation and misfit; permutation metamorphic relation",
    "Exploration of histories of assignments, add_noise (all noise types, "
    "offset/amplitude cuts incl. exact-equality limits, add_to), select, "
    "copy, to_dict/from_dict, to_file/from_file on surveys from 1x1x1 to "
    "3x4x3 with NaN gaps: after every step the stored parameters must be "
    "bit-identical to the last assignment, std must follow the formula, "
    "data sets must be untouched except where add_noise is entitled to "
    "change them (NaN pattern and |delta| = std for white noise), earlier "
    "surveys stay untouched; misfit == 0.5 sum |r|^2/std^2 and is "
    "permutation invariant.",
    "Trusted: the Python-side model in vp/checks/c13_noise.py; no oracle "
    "depends on the realised noise (random_noise is unseeded; for replay "
    "determinism the generator is swapped for a seeded one).")

add('C14',
    "Hypothesis over conductivities (12 decades) x six mappings x cases; "
    "round-trip and analytic/complex-step/finite-difference derivative "
    "oracles, coefficient differential across mappings, residual-form "
    "cross-mapping check of real solves (refop), exhaustive enumeration of "
    "the rejection product",
    "Exploration + exhaustive sub-domain: inverse pairs and chain-rule "
    "factors of all six maps; VolumeModel coefficients identical across "
    "parametrisations (1e-12); fields solved under one mapping satisfy the "
    "checker-assembled system of every other mapping to the solver "
    "tolerance; the product mapping x target x route x value-kind x form "
    "(4620 combinations) of accept/reject behaviour is enumerated in every "
    "run.",
    "Trusted: vp/refop.py, checker-side map formulas. Finite mapped values "
    "whose float64 conductivity over/underflows are counted as must-reject "
    "(interpretation recorded in ASSUMPTIONS).")

add('C06',
    "Hypothesis-drawn source/frequency per family x deterministic grid-size "
    "ladder; metamorphic oracle in the grid size (factor(n) vs factor(16)) "
    "plus absolute caps measured on the pinned tree",
    "Exploration (threshold test): stand-alone multigrid on the documented "
    "showcase (uniform grids over a 1 km cube, homogeneous isotropic or "
    "triaxial 1:2:3 medium, frequency and Laplace domain, F/V/W cycles, "
    "nu_pre/nu_post in 1..3) with a generated point source and frequency, "
    "solved at 8, 16, 32 (share: 64; thorough: 128 and non-cubic 2^a x "
    "3*2^b x 5*2^c shapes) cells per direction: all sizes must converge, "
    "rho(n) <= 1.5 rho(16) + 0.02, rho(n) <= cap(medium, nu), cycles(n) <= "
    "cycles(16) + 3.",
    "Trusted: caps = 1.5 x the largest average reduction factor measured "
    "over 216 family/source draws on the pinned tree (table in the check). "
    "It cannot establish O(N) and says nothing about stretched or "
    "heterogeneous models (not claimed by the property).")

add('C10',
    "Hypothesis over grids x electrode sets (node/edge/face-aware, all "
    "coordinate formats and call forms); oracles: conservation of moment, "
    "support set from checker-side slab clipping, scaling law, round trips "
    "of the conversion functions, loop geometry (vector area)",
    "Exploration: dipoles and wires with 2..8 electrodes anywhere in the "
    "closed grid box (strictly inside, on nodes/edges/faces, in lower and "
    "upper boundary faces, axis-aligned and oblique, UTM-like offsets), "
    "point sources over the full azimuth/elevation range, magnetic dipoles; "
    "per-component sum == last - first electrode (1e-9 L), no normalisation "
    "warning, all entries finite, support within touched cells, sfield == "
    "vfield * strength * (-s mu0), conversions round-trip, the magnetic "
    "loop is closed, planar, square, with vector area = length * "
    "direction.",
    "Trusted: checker-side clipping and closed formulas in "
    "vp/checks/c10_sources.py. The property fixes sum and support only: a "
    "wrong distribution inside the touched cells that keeps the sum is "
    "seen by C09/C07, not here.")

add('C17',
    "Hypothesis recursive object-graph strategy x 3 formats x 6 conversion "
    "pairs (and the to_file/from_file methods); oracle: checker-side strict "
    "deep equality of load(save(x)) with x (class, to_dict contents, "
    "independent public-attribute table, arrays bit-equal with dtype and "
    "shape, scalar value and kind)",
    "Exploration: nested dictionaries (depth <= 4) of scalars (NaN/inf, "
    "complex, bool, unicode, None), arrays (0-d..3-d, empty, C/F order, "
    "seven dtypes) and all 12 registered classes in every mapping, "
    "anisotropy case, coordinate format, gridding mode, with computed "
    "simulations (fields, misfit, gradient) are saved, loaded and "
    "converted; any difference is a violation attributed to format and "
    "attribute.",
    "Trusted: the checker's own equality and attribute table in "
    "vp/checks/c17_io.py; emg3d's __eq__ is not used. Excluded (documented "
    "limitations, counted): reserved key tokens, the string 'NoneType', "
    "boolean arrays; memory layout and sign of zero are not compared.")

add('C19',
    "Hypothesis over layered models x surveys x extraction settings; "
    "differential oracle: checker's own direct empymod.bipole calls built "
    "from the generated description; method/merge invariance; weight facts "
    "of extract_1d / ellipse_indices; layer-sum central finite differences "
    "of the misfit of fresh simulations",
    "Exploration: laterally invariant isotropic/VTI models in six mappings "
    "on stretched grids, electric/magnetic point and dipole sources in all "
    "coordinate formats (incl. negative strength, dipole length), "
    "absolute and source-relative receivers, 1..3 frequencies, observed "
    "none/full/gaps/all-NaN, five extraction methods with random ellipse "
    "options and merge: every finite-observation entry equals the direct "
    "1D reference (1e-10, coupling-null and measured-noise allowances), "
    "NaN elsewhere; extraction weights non-negative, sum to one, equal the "
    "documented area weights; ellipse symmetric; layered gradient layer "
    "sums match central differences to first order.",
    "Trusted: empymod on both sides (its physics and DLF accuracy are not "
    "tested); noise allowance = 20 x the largest change of the reference "
    "under ten 1e-15..1e-12 perturbations of the layers.")

add('C18',
    "exhaustive enumeration of every documented key / command-line option "
    "alone plus Hypothesis-random combinations; differential oracle CLI vs "
    "Python API through the checker's own option table (transcribed from "
    "docs/manual/cli.rst and cross-checked against it at run time)",
    "Exploration with an exhaustive sub-domain: each of the 58 documented "
    "keys (literal doc example and generated values) and each command-line "
    "option is run alone through emg3d.cli.main.main on a tiny problem and "
    "compared bit-for-bit with the equivalent API calls (data, misfit, "
    "gradient, n_observations, saved simulation; with noise: NaN pattern and "
    "noise-type identities); random combinations over gridding/layered/load "
    "x forward/misfit/gradient x h5/npz/json x save/load/cache/clean/dry "
    "run; command line must override the config file; unknown keys, "
    "sections and flags must be rejected without output; a sub-sample runs "
    "python -m emg3d as subprocess.",
    "Trusted: the checker-side option table in vp/checks/c18_cli.py (a "
    "mismatch with cli.rst of the tree under test is a harness error). "
    "Real runs use max_workers=1 (pools are C11's subject).")

add('C11',
    "Hypothesis over worker count x execution mode x forced completion "
    "order x operation; schedule control by a checker-side wrapper around "
    "the worker task function (forked workers inherit it) that holds each "
    "result back until its turn in the drawn permutation; oracle: "
    "bit-identity with the sequential run and with per-task references",
    "Exploration of schedules: surveys of 2-3 sources x 2-3 frequencies "
    "are computed with max_workers 1..16, in memory or file based, with "
    "tqdm's process_map or the plain ProcessPoolExecutor path, for compute "
    "(+ repeated compute), gradient (forward + back-propagation) and jvec, "
    "while the completion order of the tasks is forced to a drawn "
    "permutation (reversed, rotated, interleaved, random); every efield, "
    "synthetic, bfield and jvec slot, misfit and gradient must be "
    "bit-identical to the sequential run AND to a solve executed per task "
    "by the checker, so a slot filled from the wrong task is visible even "
    "if all modes agree with each other; a sequential run in a freshly "
    "forked process and per-task references computed in reverse order "
    "give two computation histories (state leaking between tasks); "
    "layouts: local and UTM-like towed sources; per-task grids of "
    "different sizes.",
    "Trusted: single-task simulations / solve_source as references. "
    "Completion orders are forced (bounded holds), not enumerated; a hold "
    "that times out only lowers distinct_nontrivial (logged order != "
    "submission order and >= 2 worker pids), it cannot raise an alarm. "
    "Worker crashes and the layered path are not covered.")

NOT_BUILT = "check not built yet (see DESIGN.md section 3 for the plan)"


# Supplements of the third session (round-3 seeded changes and the audit of
# every generator/oracle, DESIGN.md 10.4 / 10.5): appended to the texts above.
FUZZED = {'C13': 'misfit', 'C14': 'reject, coeff', 'C16': 'oaw',
          'C17': 'graph', 'C19': 'extract, ellipse', 'C20': 'fill, setters'}
EXTRA = {
 'C01': "Also generated: re-use of model/source/field objects before the judged call, provenance of the supplied field, source and model (copy, dict, pickle, deepcopy; model input forms), dirty-boundary start fields, omitted keywords, tol 0/1e-14, up to 32 cells; the certificate uses the source as it was before any call; screen, stored log and info dict are cross-checked; Field.field must agree with its components.",
 'C02': "Also: the LinearOperator emg3d hands to scipy's Krylov solvers is captured and its matvec compared with the reference; amplitudes 1e-25..1e5 and zero fields; model layouts and frequency types; inputs bit-unchanged, residual repeatable.",
 'C03': "Also: sweep counts 0..51, a long axis, epsilon_r, amplitudes 1e+-30; checker-side block Gauss-Seidel reference over all blocks (either orientation convention, the same for all kernels); combined line codes equal the single-direction calls in x, y, z order; sweeps compose.",
 'C04': "Also: sub-check 'levels' (up to three successive restrictions through emg3d's own coarse objects, every pattern x anisotropy pair, shapes to 33 cells, UTM origins, prolongation back down); R[interior coarse, boundary fine] = 0; inputs unchanged; independence of call history (second grid of equal shape).",
 'C05': "Also: sub-check 'skeleton_ssl' (multigrid as preconditioner of bicgstab/cgs/gcrotmk: every call runs max(len sc, len lr) cycles and the patterns continue across calls), verbosity -1..5 with header / cycle-line / smoothing-line oracles, clevel to 100, documented defaults for omitted arguments, maxit to 40, plates with two deep directions.",
 'C06': "Also: HTI/VTI media, axis permutations, origins, mild aspect ratios, nu 0..3; exact V/F/W smoothing-visit sequence per level (spy on solver.smoothing); worst per-cycle factor; final residual recomputed independently and compared with the info dict; prefix / restart consistency. Thresholds re-measured on 800 families.",
 'C07': "Also: nine simulation histories before the gradient, file_dir / input / dict grids / explicit tol_gradient, frequencies in drawn order and dict inputs, independent noise shapes through constructor/setter/data dict, UTM shift, unit mu_r/epsilon_r, single-cell directions with a bound relative to g.d.",
 'C08': "Also: seven histories, gridding 'input'/'dict' with finer and coarser meshes, tol_forward 1e-4 vs tol_gradient 1e-10, per-block derivative bound, jtvec(rW) = gradient in every mode, data.synthetic unchanged, all solves recorded (non-converged J solve = inconclusive, bounded at 30 %).",
 'C09': "Also: field amplitudes 10^[-30,30] and zero, float32/complex64, UTM shift, mixed tuple forms, repeated get_magnetic_field with mu_r re-assigned, source strengths and Source.get_field; own functional from copies taken before emg3d runs; inputs bit-unchanged.",
 'C10': "Also: sub-check 'reuse' (one source object, several requests, copy/dict/pickle routes) against fresh objects; transverse first moments of wires and loops, reversal antisymmetry, there-and-back; point source centre of weight; magnetic point moment and frequency independence; Field metadata; radians / tuple inputs of the conversions.",
 'C11': "Also: solver-info slots, slots inspected before any accessor, field metadata per slot, hfield slots; extended sources / anisotropy / mappings / mu_r / epsilon_r, input and shared-dict grids, 1xN and Nx1 surveys, user names incl. colliding ones, stale files in file_dir, prefetch, gradient->jtvec and jvec->jvec, sub-check 'layered'.",
 'C12': "Also: gridding input/dict problems, non-default survey parameters, second vectors, operations observe / inspect / float-frequency queries / detach, rotating pair prefixes and last steps, file-based pairs; per-entry relative comparison with measured noise margins; recorded solver tolerances; options of copies equal a fresh simulation.",
 'C13': "Also: electrode objects compared attribute by attribute, seeded noise probes for scale and mean of all three noise types, misfit after clean + re-assigned noise parameters, residual/weights, wire/magnetic sources, UTM shifts, dict names, array layouts, compute(observed=True, ...).",
 'C14': "Also: default / Map-instance mapping selection, input forms per property, in-place / subset routes, decoy VolumeModel, copy/dict/pickle/deepcopy, 60-decade range, C-ordered gradients, scalar / 0-d / read-only inputs, assignment to an absent property must raise.",
 'C15': "Also: Model re-use (interpolate, change values in place or by assignment, interpolate again vs a fresh Model); interpolation must not modify the model.",
 'C16': "Also: sub-checks 'ego' (estimate_gridding_opts), 'gmc' (good_mg_cell_nr), 'hlp' (skin_depth, wavelength, cell_width); inputs unchanged and a second call identical; centre with sea surface; designed-feasible sea surface must be a node; no foreign nodes in the vector span; stretching[0] inside the survey domain; UTM centres, Map instances, verb/raise_error.",
 'C17': "See DESIGN.md 10.5 for the dimensions added in the audit round.",
 'C18': "Also: stored simulation from another variant than the survey/model files (decides --clean/--load), grids of dry runs compared, cache over load/save with untouched-file oracle, unknown keys alone / mixed / with --load, long aliases and --opt=value, template / permuted / empty sections, formatting variants of list values.",
 'C19': "Also: exact ellipse membership, extract selection from the checker's own ellipse, weighted-mean and width oracles, non-finite observation kinds, single-column and 1..3-layer grids, histories (setter, dict, twice), stored options vs documented defaults.",
 'C20': "Also: touches between setters, deepcopy/pickle, second spectrum, verb 0..4, fft and upper-case names, both coarse options, repeated setters with transient fmin > fmax, data types and layouts, near-equal input frequencies, documented PCHIP as secondary oracle.",
}
for _pid, (_tech, _text, _note, _ref) in list(CHECKS.items()):
    if _pid in FUZZED:
        _tech += ("; plus coverage-guided campaigns (atheris/libFuzzer over "
                  "the same Hypothesis strategies and oracles, emg3d's pure-"
                  f"Python modules instrumented) for sub-checks {FUZZED[_pid]}")
    CHECKS[_pid] = (_tech, _text + " " + EXTRA.get(_pid, ''), _note, _ref)


def main():
    props = [json.loads(l) for l in open(os.path.join(VERIF,
                                                      'properties.jsonl'))]
    checks, na = [], []
    for p in props:
        pid = p['id']
        if pid in CHECKS:
            tech, text, note, ref = CHECKS[pid]
            checks.append({
                'property_id': pid,
                'quick_cmd': f"./check {pid} --tier quick",
                'thorough_cmd': f"./check {pid} --tier thorough",
                'evidence_file': f"evidence/{pid}.json",
                'replay_cmd_template': f"./check {pid} --replay {{path}}",
                'engine': 'vp-hypothesis',
                'level_claimed': {'category': 'exploration', 'text': text,
                                  'design_ref': ref},
                'level_note': note,
                'technique': tech,
            })
        else:
            na.append({'property_id': pid, 'reason': NOT_BUILT})
    man = {
        'version': 1,
        'setup_cmd': "./setup.sh",
        'hooks': {
            'guard': 'EMSIG_EMG3D_VERIF',
            'enable': "export EMSIG_EMG3D_VERIF=1 (set by ./check; no source "
                      "hooks exist: all observation is through public "
                      "functions, the solver log and checker-side "
                      "monkey-patching)",
            'baseline_off_cmd': "cd /repo && env -u EMSIG_EMG3D_VERIF "
                                "/venv/bin/python -m pytest -ra -q -p "
                                "no:cacheprovider --timeout=900 "
                                "--continue-on-collection-errors",
            'source_commits': [],
            'add_only': True,
        },
        'engines': [{
            'name': 'vp-hypothesis',
            'path': 'vp/',
            'serves_properties': sorted(CHECKS),
            'kind_free_text': "property-based testing: Hypothesis strategies "
                              "and rule-based state machines over JSON-able "
                              "specs, explicit oracles (reference operators, "
                              "round trips, metamorphic relations), "
                              "collect-then-continue, replay files; a "
                              "second engine (vp/fuzz.py) drives the same "
                              "strategies with atheris/libFuzzer",
        }],
        'checks': checks,
        'not_applicable': na,
        'notes': "Every check: ./check <ID> --tier quick|thorough; VERIF_SEED "
                 "is honoured; exit 0 held / 1 VIOLATION / 2 harness error. "
                 "Known findings: known_findings.json.",
    }
    with open(os.path.join(VERIF, 'MANIFEST.json'), 'w') as f:
        json.dump(man, f, indent=1)
    print(f"MANIFEST.json: {len(checks)} checks, {len(na)} not yet claimed")


if __name__ == '__main__':
    main()

#!/usr/bin/env python3
"""Regenerates /verif/MANIFEST.json from the table below (kept valid at all
times: properties without a built check are listed under not_applicable with
the reason 'check not built yet')."""
import json
import os

VERIF = os.path.dirname(os.path.dirname(os.path.abspath(__file__)))

# id -> (technique, level text, level note, design ref)
CHECKS = {}


def add(pid, technique, text, note, ref=None):
    CHECKS[pid] = (technique, text, note, ref or f"DESIGN.md section 3, {pid}")


add('C02',
    "Hypothesis-generated coefficients x enumerated grid shapes {2..5}^3; "
    "full interior edge basis through emg3d.core.amat_x; differential "
    "oracle = independently assembled sparse operator",
    "Exploration: for every shape with 2..5 cells per direction and "
    "generated widths / anisotropy / mu_r / epsilon_r / s the dense matrix "
    "of the matrix-free kernel is compared entrywise with C^T M_f C + s mu0 "
    "M_e (checker-side assembly), plus symmetry, gradient null space, "
    "solver.residual and jit-vs-py_func agreement. Complete for the linear "
    "map on each generated coefficient set; coefficient space is sampled.",
    "Trusted: checker-side assembly vp/refop.py (no code shared with "
    "emg3d.core), numpy/scipy; tolerance 1e4 eps relative to the sum of "
    "absolute terms.")

NOT_BUILT = "check not built yet (see DESIGN.md section 3 for the plan)"


def main():
    props = [json.loads(l) for l in open(os.path.join(VERIF,
                                                      'properties.jsonl'))]
    checks, na = [], []
    for p in props:
        pid = p['id']
        if pid in CHECKS:
            tech, text, note, ref = CHECKS[pid]
            checks.append({
                'property_id': pid,
                'quick_cmd': f"./check {pid} --tier quick",
                'thorough_cmd': f"./check {pid} --tier thorough",
                'evidence_file': f"evidence/{pid}.json",
                'replay_cmd_template': f"./check {pid} --replay {{path}}",
                'engine': 'vp-hypothesis',
                'level_claimed': {'category': 'exploration', 'text': text,
                                  'design_ref': ref},
                'level_note': note,
                'technique': tech,
            })
        else:
            na.append({'property_id': pid, 'reason': NOT_BUILT})
    man = {
        'version': 1,
        'setup_cmd': "./setup.sh",
        'hooks': {
            'guard': 'EMSIG_EMG3D_VERIF',
            'enable': "export EMSIG_EMG3D_VERIF=1 (set by ./check; no source "
                      "hooks exist: all observation is through public "
                      "functions, the solver log and checker-side "
                      "monkey-patching)",
            'baseline_off_cmd': "cd /repo && env -u EMSIG_EMG3D_VERIF "
                                "/venv/bin/python -m pytest -ra -q -p "
                                "no:cacheprovider --timeout=900 "
                                "--continue-on-collection-errors",
            'source_commits': [],
            'add_only': True,
        },
        'engines': [{
            'name': 'vp-hypothesis',
            'path': 'vp/',
            'serves_properties': sorted(CHECKS),
            'kind_free_text': "property-based testing: Hypothesis strategies "
                              "and rule-based state machines over JSON-able "
                              "specs, explicit oracles (reference operators, "
                              "round trips, metamorphic relations), "
                              "collect-then-continue, replay files",
        }],
        'checks': checks,
        'not_applicable': na,
        'notes': "Every check: ./check <ID> --tier quick|thorough; VERIF_SEED "
                 "is honoured; exit 0 held / 1 VIOLATION / 2 harness error. "
                 "Known findings: known_findings.json.",
    }
    with open(os.path.join(VERIF, 'MANIFEST.json'), 'w') as f:
        json.dump(man, f, indent=1)
    print(f"MANIFEST.json: {len(checks)} checks, {len(na)} not yet claimed")


if __name__ == '__main__':
    main()

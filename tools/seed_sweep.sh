#!/bin/bash
# usage: tools/seed_sweep.sh "<seeds>" [tier] [ids...]
# Runs the checks on the unchanged tree at several VERIF_SEED values
# (--no-evidence), 4 at a time, and lists every run that did not exit 0.
# A non-zero exit here is a false alarm or flakiness of the machinery.
cd "$(dirname "$0")/.." || exit 2
SEEDS=${1:-"2 3 5"}; TIER=${2:-quick}; shift 2
IDS=${@:-C01 C02 C03 C04 C05 C06 C07 C08 C09 C10 C11 C12 C13 C14 C15 C16 C17 C18 C19 C20}
OUT=.scratch/sweep_$$; mkdir -p $OUT
./setup.sh > $OUT/setup.log 2>&1 || { echo "setup failed"; exit 2; }
for s in $SEEDS; do for id in $IDS; do echo "$s $id"; done; done | \
  xargs -P ${SWEEP_JOBS:-4} -L 1 bash -c 'VERIF_SEED=$0 ./check $1 --tier '$TIER' --no-evidence > '$OUT'/$1_s$0.log 2>&1; echo "$1 seed=$0 exit=$? $(grep -c KNOWN-FINDING '$OUT'/$1_s$0.log) kf $(tail -1 '$OUT'/$1_s$0.log | cut -c1-150)"'
echo "--- non-zero exits:"; grep -L "^OK\|held" $OUT/*.log >/dev/null; grep -l "VIOLATION\|HARNESS-ERROR" $OUT/*.log

#!/bin/bash
# usage: tools/seed_check.sh <name> [<name> ...]   (names of /verif/seeded/*)
# Re-runs only the quick tier of the owning check against each seeded change
# (scratch worktree, removed afterwards) and updates caught_by_quick/signatures
# in meta.json.  The confirmation steps (demo, test suite) are in seed_eval.sh.
cd /verif
for NAME in "$@"; do
    OUT=/verif/seeded/$NAME
    PID=${NAME%%_*}
    WT=$(mktemp -d /tmp/wtc_XXXXXX); rmdir $WT
    git -C /repo worktree add --detach $WT HEAD >/dev/null 2>&1 || { echo "$NAME: worktree failed"; continue; }
    git -C $WT apply $OUT/patch.diff || { echo "$NAME: patch does not apply"; git -C /repo worktree remove --force $WT; continue; }
    EMG3D_UNDER_TEST=$WT ./check $PID --tier quick --no-evidence > $OUT/check.log 2>&1; CK=$?
    SIGS=$(grep "signature:" $OUT/check.log | sed 's/.*signature: //' | head -5 | tr '\n' ';')
    git -C /repo worktree remove --force $WT; git -C /repo worktree prune
    python3 - <<PY
import json
f="$OUT/meta.json"; d=json.load(open(f))
d["check_quick_exit_on_patched_tree"]=$CK; d["caught_by_quick"]=($CK==1); d["signatures"]="""$SIGS"""
json.dump(d,open(f,"w"),indent=1)
print("$NAME", "exit=$CK", "caught" if $CK==1 else "NOT CAUGHT", """$SIGS"""[:100])
PY
done

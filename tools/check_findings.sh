#!/bin/bash
# For every 'fixed' entry of known_findings.json: the replay must pass on the
# current /repo tree and must report a VIOLATION on the parent of the fix commit.
cd /verif
python3 - <<'PY' > /tmp/_findings.txt
import json
for e in json.load(open('/verif/known_findings.json'))['findings']:
    if e['status']=='fixed' and e.get('replay'):
        print(e['property'], e['commit'], e['replay'])
PY
rc=0
while read -r PID COMMIT REPLAY; do
    OUT=$(./check $PID --replay $REPLAY 2>&1 | head -1)
    WT=$(mktemp -d /tmp/wtf_XXXXXX); rmdir $WT
    git -C /repo worktree add --detach $WT ${COMMIT}^ >/dev/null 2>&1
    OUT2=$(EMG3D_UNDER_TEST=$WT ./check $PID --replay $REPLAY 2>&1 | head -1)
    git -C /repo worktree remove --force $WT
    ok=OK
    [[ $OUT == "replay passed"* ]] || ok=BAD
    [[ $OUT2 == VIOLATION* ]] || ok=BAD
    [ $ok = BAD ] && rc=1
    echo "$ok $PID $COMMIT $REPLAY :: now: ${OUT:0:40} | pre-fix: ${OUT2:0:60}"
done < /tmp/_findings.txt
rm -f /tmp/_findings.txt
git -C /repo worktree prune
exit $rc

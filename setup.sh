#!/bin/bash
# MANIFEST.setup_cmd: offline; makes sure hypothesis is importable in /venv
# and that the scratch/cache directories exist.  Nothing is fetched.
cd "$(dirname "$0")" || exit 1
export PIP_NO_INDEX=1
PY=/venv/bin/python
if ! $PY -c "import hypothesis" 2>/dev/null; then
    /venv/bin/pip install --no-index --find-links /opt/veriftools/wheels hypothesis || exit 1
fi
# atheris (coverage-guided engine, vp/fuzz.py) goes beside the repository's
# packages into ./.deps (the wheel is in the offline wheelhouse)
if ! PYTHONPATH="$PWD/.deps" $PY -c "import atheris" 2>/dev/null; then
    /venv/bin/pip install --no-index --find-links /opt/veriftools/wheels --target "$PWD/.deps" atheris || exit 1
fi
mkdir -p .cache/numba .scratch evidence replays
PYTHONPATH="$PWD/.deps" $PY -c "import hypothesis, atheris, emg3d, os; assert os.path.realpath(emg3d.__file__).startswith('/repo/'), emg3d.__file__; print('setup ok: hypothesis', hypothesis.__version__, 'emg3d from', emg3d.__file__)" || exit 1
# Warm the numba cache for the current tree (kernels are recompiled whenever
# core.py / maps.py / fields.py change, see vp/runner.py).
PYTHONPATH="$PWD" $PY -m vp.runner --warm || exit 1
